"""icontract postconditions on the real stream classes (literal restatements of C08's laws).

They are attached from the harness to dissect.util.stream.AlignedStream (the base of every disk stream in the
repository), so they also fire on streams the repository reads *internally* (parents, backing images, per-storage
streams). Evaluations are counted; zero evaluations means the monitor observed nothing.
"""
from __future__ import annotations

import os
import sys

from . import core as _core

STATE = {"installed": False, "available": False, "evals": 0, "by_class": {}}


class PostBroken(AssertionError):
    """A stream law does not hold (raised by the contract monitor, never by the repository)."""


def install() -> bool:
    if STATE["installed"]:
        return STATE["available"]
    STATE["installed"] = True
    deps = os.path.join(os.path.dirname(os.path.dirname(os.path.abspath(__file__))), ".deps")
    if deps not in sys.path:
        sys.path.append(deps)
    try:
        import icontract
    except Exception:
        return False
    from dissect.util.stream import AlignedStream

    def _count(self):
        STATE["evals"] += 1
        if not getattr(self, "_vf_seen", False):
            try:
                self._vf_seen = True
                _core.SEEN_STREAMS.append(self)
            except Exception:
                pass
        n = type(self).__name__
        STATE["by_class"][n] = STATE["by_class"].get(n, 0) + 1

    def pos_before(self):
        return self.tell()

    def read_law(self, n, result, OLD):
        _count(self)
        if self.size is None:
            return True
        remaining = max(0, self.size - OLD.p)
        want = remaining if (n is None or n == -1) else max(0, min(n, remaining))
        return len(result) == want and self.tell() == OLD.p + len(result)

    def peek_law(self, n, result, OLD):
        _count(self)
        if self.size is None:
            return True
        remaining = max(0, self.size - OLD.p)
        want = remaining if (n is None or n == -1) else max(0, min(n, remaining))
        return len(result) == want and self.tell() == OLD.p

    def seek_law(self, result):
        _count(self)
        return result == self.tell() and result >= 0

    orig_read = AlignedStream.read
    orig_peek = AlignedStream.peek
    orig_seek = AlignedStream.seek

    def read(self, n=-1):
        return orig_read(self, n)

    def peek(self, n):
        return orig_peek(self, n)

    def seek(self, pos, whence=0):
        return orig_seek(self, pos, whence)

    AlignedStream.read = icontract.snapshot(pos_before, name="p")(icontract.ensure(read_law, error=PostBroken)(read))
    AlignedStream.peek = icontract.snapshot(pos_before, name="p")(icontract.ensure(peek_law, error=PostBroken)(peek))
    AlignedStream.seek = icontract.ensure(seek_law, error=PostBroken)(seek)
    STATE["available"] = True
    return True
