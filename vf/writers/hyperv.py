"""Independent Hyper-V VMCX/VMRS (HyperVStorage) writer. Layout confirmed against the two repository samples."""
from __future__ import annotations

import struct

SIG_HEADER = 0x01282014
SIG_REPLAY = 0x01110003
SIG_OBJTABLE = 0x01110001
SIG_KEYTABLE = 0x0002
T_FREE, T_INT, T_UINT, T_DOUBLE, T_STRING, T_ARRAY, T_BOOL, T_NODE = 1, 3, 4, 5, 6, 7, 8, 9
O_OBJTABLE, O_KEYTABLE, O_FILE, O_FREE, O_REPLAY = 1, 2, 3, 4, 6


class Val:
    """A typed leaf value. kind in int/uint/double/string/array/bool; `raw_double` keeps exact bits."""

    def __init__(self, kind, value, file_object=False):
        self.kind = kind
        self.value = value
        self.file_object = file_object

    def __repr__(self):
        v = self.value
        if isinstance(v, (str, bytes)) and len(v) > 24:
            v = f"<{type(v).__name__} len {len(v)}>"
        return f"Val({self.kind}, {v!r}{', file' if self.file_object else ''})"


def header(seq: int, version: int = 0x400, alignment: int = 0x1000, replay_off: int = 0x20000, replay_size: int = 0x1000, sig: int = SIG_HEADER) -> bytes:
    return struct.pack("<IIHIQIQQI", sig, 0, seq, version, 0, alignment, replay_off, replay_size, 0x1000)


def replay_log(num_entries: int = 0, sig: int = SIG_REPLAY, targets=()) -> bytes:
    h = struct.pack("<IIIBIIIIIB", sig, 0, num_entries, 0, 145, 0, 0, 0, 0, 0)
    body = b""
    for i in range(num_entries):
        off = targets[i % len(targets)] if targets else 0x3000
        # outstanding (not yet replayed) journal entries: offset, size, two unknown words, checksums
        body += struct.pack("<QIIIII", off, 0x200, 0, 0, 0, 0)
    return h + body


def entry(typ: int, flags: int, ptbl: int, poff: int, key: bytes, value: bytes, trailer: int = 12, seq: int = 0) -> bytes:
    k = key + b"\0"
    body = k + value + b"\0" * trailer
    size = 21 + len(body)
    return struct.pack("<HIHIIIB", typ | (flags << 8), size, ptbl, poff, 0, seq, len(k)) + body


def free_entry(space: int, rng=None) -> bytes:
    """A free entry is defined by its type and size alone. With `rng`, most of them look like entries released in place:
    left-over parent reference (to a table/offset that may no longer exist), sequence number, key length and body."""
    size = 21 + space
    if rng is None or rng.random() < 0.35:
        return struct.pack("<HIHIIIB", T_FREE, size, 0, 0, 0, 0, 0) + b"\xCC" * space
    ptbl = rng.choice([0, 1, 2, 3, 9, 200, 0xFFFF])
    poff = rng.choice([0, 8, 21, rng.getrandbits(12), rng.getrandbits(32)])
    klen = rng.choice([0, 1, min(space, 255), rng.randrange(256)])
    body = bytes(rng.getrandbits(8) for _ in range(min(space, 64))).ljust(space, b"\xFD")
    return struct.pack("<HIHIIIB", T_FREE | (rng.choice([0, 1, 0x80]) << 8), size, ptbl, poff, rng.choice([0, rng.getrandbits(32)]), rng.getrandbits(32), klen) + body


def encode_value(v: Val):
    """-> (type, inline value bytes, file payload or None)"""
    k = v.kind
    if k == "int":
        return T_INT, struct.pack("<q", v.value), None
    if k == "uint":
        return T_UINT, struct.pack("<Q", v.value), None
    if k == "double":
        return T_DOUBLE, v.value if isinstance(v.value, bytes) else struct.pack("<d", v.value), None
    if k == "bool":
        return T_BOOL, struct.pack("<I", v.value if isinstance(v.value, int) and not isinstance(v.value, bool) else (1 if v.value else 0)), None
    if k == "string":
        d = v.value.encode("utf-16-le")
        return (T_STRING, None, d) if v.file_object else (T_STRING, struct.pack("<I", len(d)) + d, None)
    if k == "array":
        d = bytes(v.value)
        return (T_ARRAY, None, d) if v.file_object else (T_ARRAY, struct.pack("<I", len(d)) + d, None)
    raise ValueError(k)


def build(rng, tree: dict, *, ntables: int = 1, seqs=(3, 7), stale_tables: int = 0, free_prob: float = 0.15, table_order: str = "shuffle",
          extra_object_tables: int = 0, alignment: int = 0x1000, trailer_mode: str = "12", version: int = 0x400, replay_entries: int = 0,
          stale_same_layout: bool = True, first_table_pages: int = 1, pad_objects: int = 0,
          inactive_slot: str = "valid", emptied_tables: int = 0, backward_chain: bool = False, released_object_table: bool = False):
    # first_table_pages: room reserved for the first object table at 0x2000 (its length is given by its entry count, not by
    # a fixed page); pad_objects: that many additional unallocated entries, so that a single table can exceed one page
    """Serialise `tree` ({key: Val | dict}) into a HyperVStorage file. -> (bytes, meta)"""
    # ---- assign every entry (node or leaf) to a table; parents may live in other tables
    tables: dict[int, list] = {i + 1: [] for i in range(ntables)}
    flat = []  # (path, key, parent_ref, obj)

    def walk(d, parent):
        for k, v in d.items():
            me = {"key": k, "parent": parent, "obj": v, "table": rng.randrange(1, ntables + 1)}
            flat.append(me)
            if isinstance(v, dict):
                walk(v, me)

    walk(tree, None)
    order = list(flat)
    if table_order == "shuffle":
        rng.shuffle(order)  # children may precede their parents inside a table
    for me in order:
        tables[me["table"]].append(me)
    # ---- lay out entries per table (two passes: sizes first, then parent offsets)
    files = []  # (payload)
    for me in flat:
        v = me["obj"]
        if isinstance(v, dict):
            me["typ"], me["inline"], me["payload"] = T_NODE, None, None
        else:
            me["typ"], me["inline"], me["payload"] = encode_value(v)
        me["trailer"] = 0 if me["typ"] == T_NODE else {"12": 12, "0": 0, "rand": rng.randrange(0, 20)}[trailer_mode]
    layouts = {}
    for idx, ents in tables.items():
        pos = 10
        seq_items = []
        for me in ents:
            if rng.random() < free_prob:
                sp = rng.randrange(0, 60)
                seq_items.append(("free", sp))
                pos += 21 + sp
            me["offset"] = pos
            klen = len(me["key"].encode("utf-8")) + 1
            if me["typ"] == T_NODE:
                vlen = 12
            elif me["payload"] is not None:
                vlen = 12
            else:
                vlen = len(me["inline"])
            me["size"] = 21 + klen + vlen + me["trailer"]
            seq_items.append(("entry", me))
            pos += me["size"]
        # real tables are tiled exactly: a final free entry or the last entry's slack absorbs the remainder
        size = -(-(pos + rng.choice([0, 0, 21, 64])) // alignment) * alignment
        if rng.random() < 0.15:
            size += alignment
        rem = size - pos
        last = next((it for kind, it in reversed(seq_items) if kind == "entry"), None)
        if rem and (rem >= 21 and (last is None or seq_items[-1][0] != "entry" or rng.random() < 0.7)):
            seq_items.append(("free", rem - 21))
        elif rem and last is not None and seq_items[-1][0] == "entry":
            last["trailer"] += rem
            last["size"] += rem
        elif rem:
            size = pos  # cannot tile (less than a header left after a free entry): shrink is impossible, so grow by a page
            size = -(-(pos + 21) // alignment) * alignment
            seq_items.append(("free", size - pos - 21))
        layouts[idx] = (seq_items, size)
    # ---- file layout
    out = bytearray()
    cursor = 0x2000 + 0x1000 * first_table_pages
    objs = []  # (type, offset, size, allocated)

    def alloc(n):
        nonlocal cursor
        off = cursor
        cursor += -(-max(n, 1) // alignment) * alignment
        return off

    replay_off = alloc(0x1000)
    file_refs = {}
    for me in flat:
        if me["payload"] is not None:
            off = alloc(len(me["payload"]))
            file_refs[id(me)] = off
            files.append((off, me["payload"]))
            objs.append((O_FILE, off, -(-max(len(me["payload"]), 1) // alignment) * alignment, 1))
    table_blobs = []
    seq_of = {}
    for idx, (items, used) in layouts.items():
        seq_no = rng.randrange(2, 60000)
        seq_of[idx] = seq_no
        blob = bytearray(struct.pack("<HHHI", SIG_KEYTABLE, idx, seq_no, 0))
        for kind, it in items:
            if kind == "free":
                blob += free_entry(it, rng)
                continue
            me = it
            par = me["parent"]
            ptbl, poff = (par["table"], par["offset"]) if par else (0, 0)
            if me["typ"] == T_NODE:
                val = struct.pack("<QI", rng.getrandbits(64), rng.getrandbits(32))
                flags = 0
            elif me["payload"] is not None:
                val = struct.pack("<IQ", len(me["payload"]), file_refs[id(me)])
                flags = 1 | rng.choice([0, 0, 2])  # real files carry a second flag bit (0x02) on most string entries
            else:
                val = me["inline"]
                flags = rng.choice([0, 0, 2])
            e = entry(me["typ"], flags, ptbl, poff, me["key"].encode("utf-8"), val, trailer=me["trailer"], seq=rng.getrandbits(16))
            assert len(e) == me["size"] and len(blob) == me["offset"], (len(e), me["size"], len(blob), me["offset"])
            blob += e
        size = used
        assert len(blob) == size, (len(blob), size)
        off = alloc(size)
        table_blobs.append((off, bytes(blob)))
        objs.append((O_KEYTABLE, off, size, 1))
        # stale generations of the same index: lower sequence numbers, different content
        for _s in range(stale_tables if rng.random() < 0.7 else 0):
            sseq = rng.randrange(0, seq_no)
            if stale_same_layout:
                sb = bytearray(blob)
                sb[4:6] = struct.pack("<H", sseq)
                # scramble value bytes of leaf entries but keep the structure walkable
                for kind, it in items:
                    if kind == "entry" and it["typ"] in (T_INT, T_UINT, T_DOUBLE, T_BOOL):
                        vo = it["offset"] + 21 + len(it["key"].encode("utf-8")) + 1
                        sb[vo : vo + 4] = bytes(rng.randrange(256) for _ in range(4))
                    if kind == "entry":
                        ko = it["offset"] + 21
                        sb[ko : ko + 1] = b"#"  # renames the key: a stale table must never be visible
            else:
                sb = bytearray(struct.pack("<HHHI", SIG_KEYTABLE, idx, sseq, 0))
                sb += entry(T_NODE, 0, 0, 0, b"STALE", b"\0" * 12, trailer=0)
                sb += entry(T_INT, 0, idx, 10, b"stale-child", struct.pack("<q", -1))
            ssize = -(-len(sb) // alignment) * alignment
            soff = alloc(ssize)
            table_blobs.append((soff, bytes(sb).ljust(ssize, b"\0")))
            objs.append((O_KEYTABLE, soff, ssize, 1))
    # key tables that have been emptied: the newest generation of the index holds no entries at all (header, then zeros),
    # an older generation of the same index still has some - they were deleted and must not come back
    for k in range(emptied_tables):
        idx = ntables + 1 + k
        newest = rng.randrange(2, 60000)
        for gen_seq, filled in [(rng.randrange(0, newest), True), (newest, False)]:
            sb = bytearray(struct.pack("<HHHI", SIG_KEYTABLE, idx, gen_seq, 0))
            if filled:
                sb += entry(T_NODE, 0, 0, 0, f"DELETED{k}".encode(), b"\0" * 12, trailer=0)
                sb += entry(T_INT, 0, idx, 10, b"deleted-child", struct.pack("<q", -1))
            ssize = -(-len(sb) // alignment) * alignment
            soff = alloc(ssize)
            table_blobs.append((soff, bytes(sb).ljust(ssize, b"\0")))
            objs.append((O_KEYTABLE, soff, ssize, 1))
    if released_object_table:
        # a released (unallocated) object-table entry that still carries its type and points at what used to be a valid object
        # table, listing outdated key tables (one of them with a higher sequence number than the live table of that index)
        gblobs = []
        for gidx, gseq in ((1, 65000), (ntables + 40, 5)):
            sb = bytearray(struct.pack("<HHHI", SIG_KEYTABLE, gidx, gseq, 0))
            sb += entry(T_NODE, 0, 0, 0, b"RELEASED", b"\0" * 12, trailer=0)
            sb += entry(T_INT, 0, gidx, 10, b"released-child", struct.pack("<q", -7))
            gsize = -(-len(sb) // alignment) * alignment
            goff = alloc(gsize)
            table_blobs.append((goff, bytes(sb).ljust(gsize, b"\0")))
            gblobs.append((O_KEYTABLE, goff, gsize, 1))
        rt = struct.pack("<II", SIG_OBJTABLE, len(gblobs)) + b"".join(struct.pack("<BIQIB", t, 0, o, s, a) for t, o, s, a in gblobs)
        rsize = -(-len(rt) // alignment) * alignment
        roff = alloc(rsize)
        table_blobs.append((roff, rt.ljust(rsize, b"\0")))
        objs.append((O_OBJTABLE, roff, rsize, 0))
    # unallocated / free object entries
    for _ in range(rng.randrange(0, 4)):
        objs.append((rng.choice([O_FREE, 0, O_KEYTABLE, O_FILE]), rng.randrange(0x3000, 0x9000) & ~0xFFF, 0x1000, 0))
    for _ in range(pad_objects):
        objs.append((rng.choice([O_FREE, 0]), 0, 0, 0))
    rng.shuffle(objs)
    # extra (acyclic) object tables: move a share of the objects into tables linked from the first one
    first = list(objs)
    extra_tabs = []
    for t in range(extra_object_tables):
        if len(first) < 2:
            break
        k = rng.randrange(1, len(first))
        moved, first = first[:k], first[k:]
        # room for one more entry (a link to another table, see backward_chain)
        eoff = alloc(8 + 18 * (len(moved) + 1))
        extra_tabs.append((eoff, moved))
        first.insert(rng.randrange(0, len(first) + 1), (O_OBJTABLE, eoff, -(-(8 + 18 * len(moved)) // alignment) * alignment, 1))

    if backward_chain and len(extra_tabs) >= 2:
        # tables chain in any direction: the first table links to a table high up in the file, which links back to one that
        # lies before it
        (lo_off, _lo), (hi_off, hi_moved) = extra_tabs[0], extra_tabs[-1]
        link = next((e_ for e_ in first if e_[0] == O_OBJTABLE and e_[1] == lo_off), None)
        if link is not None:
            first.remove(link)
            hi_moved.insert(rng.randrange(0, len(hi_moved) + 1), link)

    def objtable(ents, sig=SIG_OBJTABLE):
        return struct.pack("<II", sig, len(ents)) + b"".join(struct.pack("<BIQIB", t, 0, o, s, a) for t, o, s, a in ents)

    ot = objtable(first)
    assert len(ot) <= 0x1000 * first_table_pages, "object table does not fit the room reserved for it"
    total = cursor
    out = bytearray(total)
    h1, h2 = header(seqs[0], version, alignment, replay_off), header(seqs[1], version, alignment, replay_off)
    if inactive_slot != "valid":
        # the slot that is not in force was never written (zeros) or holds a torn write / stale garbage: only its sequence
        # number (kept below the active one) matters for choosing the active header
        first_active = seqs[0] > seqs[1]
        act = seqs[0] if first_active else seqs[1]
        low = rng.randrange(0, act) if act > 0 else 0
        if first_active or low <= act:
            junk = bytearray(len(h1)) if inactive_slot == "zero" else bytearray(rng.randrange(256) for _ in range(len(h1)))
            if inactive_slot == "zero":
                low = 0
            struct.pack_into("<H", junk, 8, low if (first_active and low < act) or (not first_active) else 0)
            if first_active and not (struct.unpack_from("<H", junk, 8)[0] < act):
                junk = None
            if junk is not None:
                if first_active:
                    h2 = bytes(junk)
                else:
                    h1 = bytes(junk)
    out[0 : len(h1)] = h1
    out[0x1000 : 0x1000 + len(h2)] = h2
    out[0x2000 : 0x2000 + len(ot)] = ot
    rl = replay_log(replay_entries, targets=[o for o, _ in table_blobs])
    out[replay_off : replay_off + len(rl)] = rl
    for off, blob in table_blobs:
        out[off : off + len(blob)] = blob
    for off, payload in files:
        out[off : off + len(payload)] = payload
    for eoff, moved in extra_tabs:
        b = objtable(moved)
        out[eoff : eoff + len(b)] = b
    meta = {"tables": ntables, "entries": len(flat), "file_objects": len(files), "object_entries": len(objs), "extra_object_tables": len(extra_tabs),
            "replay_off": replay_off, "table_offsets": [o for o, _ in table_blobs][: len(layouts) * 1000], "seq_of": seq_of, "size": total,
            "extra_table_offsets": [o for o, _ in extra_tabs], "backward_chain": bool(backward_chain and len(extra_tabs) >= 2)}
    return bytes(out), meta
