"""Independent VDI (VirtualBox v1.1) writer. Layout tables are the harness's own."""
from __future__ import annotations

import struct

from vf.core import D, SECTOR, T, Z, Layer, PatternGen, SparseFile

SIGNATURE = 0xBEDA107F


def build(rng, *, block_size: int, nblocks: int, tail_cut: int = 0, states=None, placement: str = "shuffle",
          blocks_offset: int | None = None, data_gap: int = 0, holes: int = 0, tag: int = 1, kind: int = 0,
          header_size: int = 0x190, dense: bool = False, uuid: bytes | None = None, parent_uuid: bytes = b"\0" * 16,
          description: bytes = b"", image_type: int = 1, tight_end: bool = False):
    """-> (SparseFile, Layer, meta). states[i] in {'A','U','Z'} per logical block."""
    size = nblocks * block_size - tail_cut
    spb = block_size // SECTOR
    layer = Layer(size, spb, tag, kind, default=T)
    if states is None:
        states = [rng.choice("AAAUZ") for _ in range(nblocks)]
    alloc = [i for i, s in enumerate(states) if s == "A"]
    nphys = len(alloc) + holes
    phys = list(range(nphys))
    if placement == "seq":
        pass
    elif placement == "rev":
        phys.reverse()
    elif placement == "shuffle":
        rng.shuffle(phys)
    elif placement == "runs":
        # ascending adjacent runs in shuffled group order
        groups, cur = [], []
        for p in phys:
            cur.append(p)
            if rng.random() < 0.4:
                groups.append(cur)
                cur = []
        if cur:
            groups.append(cur)
        rng.shuffle(groups)
        phys = [p for g in groups for p in g]
    bmap = []
    it = iter(phys)
    pmap = {}
    for i, s in enumerate(states):
        if s == "A":
            p = next(it)
            pmap[i] = p
            bmap.append(p)
            layer.units[i] = D
        elif s == "U":
            bmap.append(-1)
            layer.units[i] = T
        else:
            bmap.append(-2)
            layer.units[i] = Z
    if blocks_offset is None:
        blocks_offset = 512
    map_bytes = struct.pack(f"<{nblocks}i", *bmap)
    data_offset = -(-(blocks_offset + len(map_bytes)) // SECTOR) * SECTOR + data_gap
    if tight_end and not nphys:
        # an image without a single stored block: the file ends with the last entry of the block map
        data_offset = blocks_offset + len(map_bytes)
    uuid = uuid or bytes(rng.randrange(256) for _ in range(16))
    snap_uuid = bytes(rng.randrange(256) for _ in range(16))
    info = rng.random() < 0.6  # informational fields: any value is well-formed
    banner = rng.choice([b"<<< Oracle VM VirtualBox Disk Image >>>\n", b"<<< innotek VirtualBox Disk Image >>>\n", b"<<< QEMU VM Virtual Disk Image >>>\n",
                         b"<<< Sun xVM VirtualBox Disk Image >>>\n"]) if info else b"<<< Oracle VM VirtualBox Disk Image >>>\n"
    hdr = banner.ljust(64, b"\0")
    hdr += struct.pack("<IIIII", SIGNATURE, 0x00010001, header_size, image_type, rng.choice([0, 0, 2]) if info else 0)
    hdr += description.ljust(256, b"\0")[:256]
    geo = (rng.getrandbits(16), rng.randrange(1, 256), rng.randrange(1, 64)) if info else (0, 0, 0)
    hdr += struct.pack("<IIIIIIIQIIII", blocks_offset, data_offset, geo[0], geo[1], geo[2], 512, rng.getrandbits(32) if info else 0, size, block_size, 0, nblocks,
                       len(alloc))
    hdr += uuid + snap_uuid + (bytes(rng.randrange(256) for _ in range(16)) if info and rng.random() < 0.3 else b"\0" * 16) + parent_uuid
    if info and blocks_offset >= 512:
        # "garbage / unused" tail of the header sector (LCHS geometry of newer versions lives here)
        hdr += struct.pack("<IIII", rng.getrandbits(16), rng.randrange(1, 256), rng.randrange(1, 64), 512)
    sf = SparseFile()
    sf.put(0, hdr)
    sf.put(blocks_offset, map_bytes)
    if dense and pmap and all(i == p for i, p in pmap.items()) and len(pmap) == nblocks:
        # identity map over the whole disk: one lazy extent instead of one per block
        sf.put(data_offset, PatternGen(layer, 0, nblocks * spb))
    else:
        for i, p in pmap.items():
            first = i * spb
            # the last block of a disk that is not a block multiple is still stored in full
            sf.put(data_offset + p * block_size, PatternGen(layer, first, spb))
    sf.size = max(sf.end, data_offset + nphys * block_size)
    meta = {
        "size": size, "block_size": block_size, "nblocks": nblocks, "blocks_offset": blocks_offset,
        "data_offset": data_offset, "map": bmap, "uuid": uuid.hex(), "parent_uuid": parent_uuid.hex(),
        "metadata_bytes": 512 + len(map_bytes),
    }
    return sf, layer, meta
