"""Independent encrypted-VMX writer (key safe + encryption.data), modelled on VMware's format."""
from __future__ import annotations

import base64
import hashlib
import hmac
from urllib.parse import quote

from Crypto.Cipher import AES

KEY_SIZES = {"AES-128": 16, "AES-192": 24, "AES-256": 32}
MACS = {"HMAC-SHA-1": ("sha1", 20), "HMAC-SHA-1-128": ("sha1", 16), "HMAC-SHA-256": ("sha256", 32)}
KDFS = {"PBKDF2-HMAC-SHA-1": "sha1", "PBKDF2-HMAC-SHA-256": "sha256"}


def q(s: str) -> str:
    return quote(s, safe="")


def qd(s: str, style: str = "full") -> str:
    """Escaping of a value inside a crypto dict ('key=value:key=value'). VMware itself escapes only the characters that
    would break the syntax ('%', '=', ':'), so base64 '+' and '/' stay literal; escaping everything is equally valid."""
    if style == "full":
        return quote(s, safe="")
    return s.replace("%", "%25").replace("=", "%3d").replace(":", "%3a")


def seal(key: bytes, plaintext: bytes, mac: str, iv: bytes) -> bytes:
    """IV | AES-CBC(plaintext + PKCS#7) | HMAC(key, plaintext)[:n]"""
    name, size = MACS[mac]
    pad = 16 - len(plaintext) % 16
    ct = AES.new(key, AES.MODE_CBC, iv=iv).encrypt(plaintext + bytes([pad]) * pad)
    return iv + ct + hmac.digest(key, plaintext, name)[:size]


def phrase_pair(rng, passphrase: str, data_key: bytes, *, cipher: str, mac: str, kdf: str, rounds: int, salt: bytes, ident: str = "id1",
                data_cipher: str | None = None, dict_style: str = "full"):
    """-> (locator text, wrapped-key blob bytes)"""
    ks = KEY_SIZES[cipher]
    k1 = hashlib.pbkdf2_hmac(KDFS[kdf], passphrase.encode(), salt, rounds, ks)
    # the cipher named inside the wrapped dictionary belongs to the data key, not to the wrapping
    inner = f"type=key:cipher={qd(data_cipher or cipher, dict_style)}:key={qd(base64.b64encode(data_key).decode(), dict_style)}".encode()
    blob = seal(k1, inner, mac, bytes(rng.randrange(256) for _ in range(16)))
    return blob, {"ident": ident, "kdf": kdf, "cipher": cipher, "rounds": rounds, "salt": salt, "mac": mac, "dict_style": dict_style}


def pair_text(blob: bytes, p: dict) -> str:
    st = p.get("dict_style", "full")
    pd = f"pass2key={qd(p['kdf'], st)}:cipher={qd(p['cipher'], st)}:rounds={p['rounds']}:salt={qd(base64.b64encode(p['salt']).decode(), st)}"
    return f"pair/(phrase/{q(p['ident'])}/{q(pd)},{q(p['mac'])},{q(base64.b64encode(blob).decode())})"


def keysafe_text(pairs: list[str], identifier: str = "vmware:key") -> str:
    return f"{identifier}/list/({','.join(pairs)})"


def vmx_text(keysafe: str, data_blob: bytes, plain_lines: list[str] | None = None) -> str:
    lines = ['.encoding = "UTF-8"'] + (plain_lines or [])
    lines.append(f'encryption.keySafe = "{keysafe}"')
    lines.append(f'encryption.data = "{base64.b64encode(data_blob).decode()}"')
    return "\n".join(lines) + "\n"
