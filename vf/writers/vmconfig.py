"""Generators of VM configuration documents (VMX, OVF, VirtualBox, PVS) from a device model, and hostile XML."""
from __future__ import annotations

from xml.sax.saxutils import escape, quoteattr

OVF_NS = "http://schemas.dmtf.org/ovf/envelope/1"
RASD_NS = "http://schemas.dmtf.org/wbem/wscim/1/cim-schema/2/CIM_ResourceAllocationSettingData"
VBOX_NS = "http://www.virtualbox.org/"
DISK_TYPES = [None, "", "disk", "scsi-hardDisk", "ata-hardDisk", "Disk", "SCSI-HARDDISK"]
NON_DISK_TYPES = ["cdrom-image", "cdrom-raw", "atapi-cdrom", "CDROM-IMAGE"]
NAMECH = "abcdefghXYZ0123456789 _-.()é日😀#=;!'&"


def fname(rng, ext: str) -> str:
    n = "".join(rng.choice(NAMECH) for _ in range(rng.randrange(1, 24))).strip() or "d"
    return n + ext


# ----------------------------------------------------------------------------------------- VMX


def gen_vmx(rng):
    """-> (text, sorted disk list, {lower key: value})"""
    devices = {}
    buses = {"scsi": (4, 16), "sata": (4, 30), "ide": (2, 2), "nvme": (4, 15)}
    for _ in range(rng.choice([0, 1, 2, 4, 8, 14])):
        cls = rng.choice(list(buses))
        b, u = rng.randrange(buses[cls][0]), rng.randrange(buses[cls][1])
        is_disk = rng.random() < 0.6
        devices[(cls, b, u)] = {
            "type": rng.choice(DISK_TYPES) if is_disk else rng.choice(NON_DISK_TYPES),
            "file": fname(rng, ".vmdk" if is_disk else rng.choice([".iso", ".vmdk", ""])) if rng.random() < 0.92 else None,
            "disk": is_disk,
        }
    entries = []  # (key, value) in order; later duplicates override
    for (cls, b, u), d in devices.items():
        pre = f"{cls}{b}:{u}"
        entries.append((f"{pre}.present", "TRUE"))
        if d["file"] is not None:
            entries.append((f"{pre}.fileName", d["file"]))
        if d["type"] is not None:
            entries.append((f"{pre}.deviceType", d["type"]))
        if rng.random() < 0.3:
            entries.append((f"{pre}.redo", ""))
        if rng.random() < 0.2:
            entries.append((f"{pre}.mode", "independent-persistent"))
        if rng.random() < 0.25:
            # sub-settings of a device (change tracking, digests, caches, scheduling) are not devices, whatever their last component
            sub_ = rng.choice(["ctk", "digest", "cache", "log", "sched"])
            entries.append((f"{pre}.{sub_}.fileName", fname(rng, rng.choice(["-ctk.vmdk", ".bin", ".vmdk"]))))
            if rng.random() < 0.5:
                entries.append((f"{pre}.{sub_}.present", "TRUE"))
    for cls in {c for c, _, _ in devices}:
        for b in {b for c, b, _ in devices if c == cls}:
            entries.append((f"{cls}{b}.present", "TRUE"))
            if cls == "scsi":
                entries.append((f"{cls}{b}.virtualDev", rng.choice(["lsilogic", "pvscsi", "lsisas1068"])))
            if rng.random() < 0.3:
                entries.append((f"{cls}{b}.pciSlotNumber", str(rng.randrange(16, 300))))
            if rng.random() < 0.15:
                entries.append((f"{cls}{b}.log.fileName", fname(rng, ".vmdk")))
    unrelated = [("displayName", fname(rng, "")), ("guestOS", "other-64"), ("memsize", "1024"), ("ethernet0.fileName", "not-a-disk.bin"),
                 ("floppy0.fileName", "floppy.flp"), ("floppy0.present", "TRUE"), ("ethernet0.present", "TRUE"), ("a.b.c", "x"),
                 ("usb.present", "TRUE"), ("sound.fileName", "-1"), ("serial0.fileName", "serial.out"), ("vmci0.present", "TRUE"),
                 ("checkpoint.vmState", "state.vmss"), ("nvram", "vm.nvram"), ("extendedConfigFile", "vm.vmxf"), ("uuid.bios", "56 4d 00 11"),
                 ("tools.syncTime", "FALSE"), ("virtualHW.version", "19"), ("config.version", "8"), (".encoding", "UTF-8")]
    for kv in unrelated:
        if rng.random() < 0.5:
            entries.append(kv)
    # duplicate assignments: an earlier (stale) value followed by the real one
    final = {}
    out = []
    rng.shuffle(entries)
    for k, v in entries:
        if rng.random() < 0.2:
            # one to three earlier (stale) assignments in varying spellings; the last assignment may well reuse the
            # spelling of the first one (X, Y, X): it is still the last one that counts
            spell = [k, k.upper(), k.lower(), k.title()]
            rng.shuffle(spell)
            nst = rng.choice([1, 1, 2, 3])
            seq = [spell[j % 2] for j in range(nst + 1)] if rng.random() < 0.6 else [rng.choice(spell) for _ in range(nst + 1)]
            for j in range(nst):
                out.append((k, f"STALE{j}-" + v, seq[j]))
            out.append((k, v, seq[nst]))
        else:
            out.append((k, v, None))
    lines = []
    for k, v, forced in out:
        key = (forced or rng.choice([k, k, k.lower(), k.upper(), k.title()])) if not k.startswith(".") else k
        style = rng.random()
        if style < 0.7:
            ln = f'{key} = "{v}"'
        elif style < 0.85:
            ln = f'{key}="{v}"'
        else:
            ln = f'  {key}   =   "{v}"  '
        lines.append(ln)
        final[k.lower()] = v
        if rng.random() < 0.1:
            lines.append(rng.choice(["", "# a comment", "#scsi0:9.fileName = \"commented-out.vmdk\"", "   "]))
    text = ("\r\n" if rng.random() < 0.3 else "\n").join(lines) + "\n"
    disks = sorted(d["file"] for d in devices.values() if d["disk"] and d["file"])
    return text, disks, final, devices


# ----------------------------------------------------------------------------------------- OVF


def gen_ovf(rng, doctype: str = "", lead: str = ""):
    op = rng.choice(["ovf", "o", "env", "ns0", "ovfx"])
    rp = rng.choice(["rasd", "r", "ra", "cim"])
    default_ns = rng.random() < 0.6
    E = (lambda t: t) if default_ns else (lambda t: f"{op}:{t}")
    nfiles = rng.randrange(0, 7)
    idch = "ovf:disk12file_-."
    files = {}
    while len(files) < nfiles:
        fid = rng.choice(["file", "ovffile", "f", "o", "vf", "ffo"]) + "".join(rng.choice(idch if rng.random() < 0.3 else idch.replace(":", "")) for _ in range(rng.randrange(0, 6)))
        files[fid] = fname(rng, ".vmdk")
    disks = {}
    for fid in list(files):
        if rng.random() < 0.8:
            # ids are plain strings; tools number clones "vmdisk#2", and nothing keeps "?" or ";" out of them either
            did = rng.choice(["vmdisk", "ovfdisk", "disk", "d", "o", "v", "f"]) + "".join(rng.choice("0123456789abov:" if rng.random() < 0.3 else ("0123456789abov#?;" if rng.random() < 0.3 else "0123456789abov")) for _ in range(rng.randrange(0, 5)))
            others = [f_ for f_ in files if f_ != fid]
            if others and rng.random() < 0.2:
                # disk ids and file ids are separate name spaces: a disk may well be called what another file is called
                did = rng.choice(others)
            if did not in disks:
                disks[did] = fid
    items = []
    want = []
    other_types = ["3", "4", "5", "6", "10", "14", "15", "16", "20", "23", "1"]
    for _ in range(rng.choice([0, 1, 2, 4, 9])):
        r = rng.random()
        if r < 0.55 and (disks or files):
            rt = "17"
            if disks and (rng.random() < 0.7 or not files):
                did = rng.choice(list(disks))
                host = rng.choice(["ovf:/disk/", "/disk/"]) + did
                want.append(files[disks[did]])
            else:
                fid = rng.choice(list(files))
                host = rng.choice(["ovf:/file/", "/file/"]) + fid
                want.append(files[fid])
            items.append((rt, host))
        else:
            rt = rng.choice(other_types)
            host = None
            if rt in ("14", "15", "16") and (disks or files) and rng.random() < 0.7:
                # removable media pointing into the disk section / references (VirtualBox style): not a hard disk
                host = ("ovf:/disk/" + rng.choice(list(disks))) if disks and rng.random() < 0.7 else ("ovf:/file/" + rng.choice(list(files)) if files else None)
            items.append((rt, host))
    split_hw = rng.random() < 0.3
    x = ['<?xml version="1.0" encoding="UTF-8"?>', lead, doctype]
    nsdecl = f' xmlns:{op}="{OVF_NS}" xmlns:{rp}="{RASD_NS}" xmlns:vssd="http://schemas.dmtf.org/wbem/wscim/1/cim-schema/2/CIM_VirtualSystemSettingData"'
    if default_ns:
        nsdecl += f' xmlns="{OVF_NS}"'
    x.append(f"<{E('Envelope')}{nsdecl} {op}:version=\"1.0\">")
    x.append(f"<{E('References')}>")
    for fid, href in files.items():
        x.append(f"<{E('File')} {op}:id={quoteattr(fid)} {op}:href={quoteattr(href)} {op}:size=\"{rng.randrange(1, 10**9)}\"/>")
    x.append(f"</{E('References')}>")
    x.append(f"<{E('DiskSection')}><{E('Info')}>disks</{E('Info')}>")
    for did, fid in disks.items():
        x.append(f"<{E('Disk')} {op}:capacity=\"{rng.randrange(1, 10**6)}\" {op}:diskId={quoteattr(did)} {op}:fileRef={quoteattr(fid)} {op}:format=\"vmdk\"/>")
    x.append(f"</{E('DiskSection')}>")
    x.append(f"<{E('VirtualSystem')} {op}:id=\"vm\"><{E('Info')}>a vm</{E('Info')}><{E('VirtualHardwareSection')}><{E('Info')}>hw</{E('Info')}>")
    for n, (rt, host) in enumerate(items):
        parts = [f"<{rp}:ElementName>dev{n}</{rp}:ElementName>", f"<{rp}:InstanceID>{n}</{rp}:InstanceID>", f"<{rp}:ResourceType>{rt}</{rp}:ResourceType>"]
        if host is not None:
            parts.append(f"<{rp}:HostResource>{escape(host)}</{rp}:HostResource>")
        rng.shuffle(parts)
        x.append(f"<{E('Item')}>" + "".join(parts) + f"</{E('Item')}>")
        if split_hw and n + 1 < len(items) and rng.random() < 0.4:
            # the hardware of one virtual system may be described by several hardware sections (one per supported platform)
            x.append(f"</{E('VirtualHardwareSection')}><{E('VirtualHardwareSection')}><{E('Info')}>more hw</{E('Info')}>")
    x.append(f"</{E('VirtualHardwareSection')}></{E('VirtualSystem')}></{E('Envelope')}>")
    return "\n".join(p for p in x if p), sorted(want)


# ----------------------------------------------------------------------------------------- VirtualBox


def _numrefs(rng, quoted: str) -> str:
    """Now and then spell characters of an attribute value as numeric character references (decimal or hex), as serialisers do for
    anything outside their output encoding: the value is the same."""
    if rng.random() > 0.3:
        return quoted
    q, body = quoted[0], quoted[1:-1]
    out = []
    i = 0
    while i < len(body):
        ch = body[i]
        if ch == "&":  # keep existing references intact
            j = body.index(";", i)
            out.append(body[i : j + 1])
            i = j + 1
            continue
        if ord(ch) > 127 or (ch.isalnum() and rng.random() < 0.1):
            out.append(f"&#{ord(ch)};" if rng.random() < 0.5 else f"&#x{ord(ch):X};")
        else:
            out.append(ch)
        i += 1
    return q + "".join(out) + q


def gen_vbox(rng, doctype: str = "", lead: str = ""):
    must, maybe, never = [], [], []

    def hd(depth):
        loc = fname(rng, rng.choice([".vdi", ".vdi", ".vmdk", ".vhd"]))
        fmt = rng.choice(["VDI", "VDI", "vdi", "Vdi", "VMDK", "VHD"])
        typ = rng.choice(["Normal", "Normal", "Normal", "Immutable", "Writethrough", "Shareable", "Readonly", "MultiAttach", None]) if depth == 0 else rng.choice([None, None, "Normal"])
        attrs = f'uuid="{{{rng.getrandbits(32):08x}-0000-4000-8000-000000000000}}" location={_numrefs(rng, quoteattr(loc))} format="{fmt}"'
        if typ is not None:
            attrs += f' type="{typ}"'
        if typ == "Normal" and fmt.lower() == "vdi":
            # explicit Normal VDI entries are the VM's hard disks at any nesting depth of the registry
            must.append(loc)
        else:
            maybe.append(loc)
        kids = ""
        if depth < 3 and rng.random() < 0.35:
            kids = "".join(hd(depth + 1) for _ in range(rng.randrange(1, 3)))
        return f"<HardDisk {attrs}>{kids}</HardDisk>" if kids else f"<HardDisk {attrs}/>"

    hds = "".join(hd(0) for _ in range(rng.choice([0, 1, 2, 5])))
    dvds = ""
    for _ in range(rng.randrange(0, 3)):
        loc = fname(rng, ".iso")
        never.append(loc)
        dvds += f'<Image uuid="{{x}}" location={quoteattr(loc)}/>'
    flps = ""
    for _ in range(rng.randrange(0, 2)):
        loc = fname(rng, ".img")
        never.append(loc)
        flps += f'<Image uuid="{{y}}" location={quoteattr(loc)}/>'
    reg = f"<MediaRegistry><HardDisks>{hds}</HardDisks><DVDImages>{dvds}</DVDImages><FloppyImages>{flps}</FloppyImages></MediaRegistry>"
    machine = f'<Machine uuid="{{m}}" name="vm">{reg}<Hardware><CPU count="2"/></Hardware></Machine>'
    if rng.random() < 0.3:
        machine = f'<Global>{reg}</Global>' + f'<Machine uuid="{{m}}" name="vm"><Hardware/></Machine>'
    # the same namespace can be declared in several spellings (quotes, blanks around '=', a prefix instead of the default)
    form = rng.choice(["default", "default", "single-quotes", "spaced", "prefix"])
    body = f'<VirtualBox xmlns="{VBOX_NS}" version="1.16-linux">{machine}</VirtualBox>'
    if form == "single-quotes":
        body = body.replace(f'xmlns="{VBOX_NS}"', f"xmlns='{VBOX_NS}'", 1)
    elif form == "spaced":
        body = body.replace(f'xmlns="{VBOX_NS}"', f'xmlns  =  "{VBOX_NS}"', 1)
    elif form == "prefix":
        import re as _re

        pfx = rng.choice(["vb", "ns0", "v"])
        body = _re.sub(r"<(/?)([A-Za-z])", lambda m_: f"<{m_.group(1)}{pfx}:{m_.group(2)}", body).replace(f'xmlns="{VBOX_NS}"', f'xmlns:{pfx}="{VBOX_NS}"', 1)
    text = f'<?xml version="1.0"?>\n{lead}{doctype}{body}'
    return text, sorted(must), sorted(maybe), sorted(never)


# ----------------------------------------------------------------------------------------- PVS


def gen_pvs(rng, doctype: str = "", lead: str = ""):
    want, never = [], []

    def dev(tag):
        name = fname(rng, ".hdd" if tag == "Hdd" else ".iso")
        (want if tag == "Hdd" else never).append(name)
        nested = ""
        if tag == "Hdd" and rng.random() < 0.35:
            # Boot Camp style: the partitions of a physical disk, each with a SystemName of its own (not a backing file)
            parts = [f"/dev/disk{rng.randrange(3)}s{j + 1}" for j in range(rng.randrange(1, 4))]
            never.extend(parts)
            nested = "".join(f"<Partition><SystemName>{p}</SystemName><InUse>{rng.randrange(2)}</InUse></Partition>" for p in parts)
            if rng.random() < 0.5:
                nested = f"<Partitions>{nested}</Partitions>"
        pre, post = (nested, "") if rng.random() < 0.5 else ("", nested)
        return f"<{tag} dyn_lists=\"\"><Index>{rng.randrange(9)}</Index><Enabled>1</Enabled>{pre}<SystemName>{escape(name)}</SystemName><UserFriendlyName>{escape(name)}</UserFriendlyName>{post}</{tag}>"

    devs = [dev(rng.choice(["Hdd", "Hdd", "CdRom", "Fdd", "NetworkAdapter", "Sound", "USB", "Serial"])) for _ in range(rng.choice([0, 1, 3, 7]))]
    hw = "".join(devs)
    if rng.random() < 0.3:
        hw = f"<Extra>{hw}</Extra>"
    text = f'<?xml version="1.0" encoding="UTF-8"?>\n{lead}{doctype}<ParallelsVirtualMachine schemaVersion="1.0"><Identification><VmName>x</VmName></Identification><Hardware>{hw}</Hardware></ParallelsVirtualMachine>'
    return text, sorted(want), sorted(never)


# ----------------------------------------------------------------------------------------- hostile XML


def doctypes(root: str, canary_uri: str, http_uri: str = "http://127.0.0.1:9/x") -> dict:
    """Named DOCTYPE declarations; those in ENTITY_CLASSES declare entities and must be refused."""
    bomb = "".join(f'<!ENTITY e{i} "{"&e%d;" % (i - 1) * 10}">' for i in range(1, 9))
    return {
        "internal-used": f'<!DOCTYPE {root} [<!ENTITY a "xx">]>',
        "internal-unused": f'<!DOCTYPE {root} [<!ENTITY unused "yy">]>',
        "bomb": f'<!DOCTYPE {root} [<!ENTITY e0 "aaaaaaaaaa">{bomb}]>',
        # wide and shallow: one large entity referenced many times stays below the amplification limits built into expat
        "wide-bomb": f'<!DOCTYPE {root} [<!ENTITY big "{"W" * (1 << 20)}">]>',
        "ext-general-file": f'<!DOCTYPE {root} [<!ENTITY x SYSTEM "{canary_uri}">]>',
        "ext-general-http": f'<!DOCTYPE {root} [<!ENTITY x SYSTEM "{http_uri}">]>',
        "ext-parameter": f'<!DOCTYPE {root} [<!ENTITY % p SYSTEM "{canary_uri}"> %p;]>',
        "unparsed": f'<!DOCTYPE {root} [<!NOTATION n SYSTEM "x"><!ENTITY u SYSTEM "{canary_uri}" NDATA n>]>',
        "public-ext": f'<!DOCTYPE {root} [<!ENTITY x PUBLIC "-//X//Y" "{canary_uri}">]>',
        # declarations whose literal is empty (empty replacement text, empty system identifier = the document itself) declare
        # an entity all the same
        "internal-empty": f'<!DOCTYPE {root} [<!ENTITY a "">]>',
        "ext-empty-sysid": f'<!DOCTYPE {root} [<!ENTITY x SYSTEM "">]>',
        "param-empty": f'<!DOCTYPE {root} [<!ENTITY % p "">]>',
        "param-ext-empty-sysid": f'<!DOCTYPE {root} [<!ENTITY % p SYSTEM "">]>',
        "public-empty-ids": f'<!DOCTYPE {root} [<!ENTITY x PUBLIC "" "">]>',
        # a harmless-looking first declaration (the non-breaking-space idiom) followed by what matters
        "nbsp-then-bomb": f'<!DOCTYPE {root} [<!ENTITY nbsp "&#160;">{bomb.replace("e0;", "nbsp;")}<!ENTITY e0 "aaaaaaaaaa">]>',
        "nbsp-then-external": f'<!DOCTYPE {root} [<!ENTITY nbsp "&#160;"><!ENTITY x SYSTEM "{canary_uri}">]>',
        "char-then-parameter": f'<!DOCTYPE {root} [<!ENTITY c "c"><!ENTITY % p SYSTEM "{canary_uri}"> %p;]>',
        "ext-dtd-file": f'<!DOCTYPE {root} SYSTEM "{canary_uri}">',
        "ext-dtd-http": f'<!DOCTYPE {root} SYSTEM "{http_uri}">',
        "doctype-only": f"<!DOCTYPE {root}>",
        "doctype-empty-subset": f"<!DOCTYPE {root} []>",
        "dtd-elements-only": f'<!DOCTYPE {root} [<!ELEMENT {root} ANY><!ATTLIST {root} note CDATA #IMPLIED><!NOTATION n SYSTEM "x"><!-- no entities -->]>',
        "none": "",
    }


ENTITY_CLASSES = ["internal-used", "internal-unused", "bomb", "wide-bomb", "ext-general-file", "ext-general-http", "ext-parameter", "unparsed", "public-ext",
                  "internal-empty", "ext-empty-sysid", "param-empty", "param-ext-empty-sysid", "public-empty-ids",
                  "nbsp-then-bomb", "nbsp-then-external", "char-then-parameter"]
ENTITY_REF = {"internal-used": "&a;", "internal-empty": "&a;", "nbsp-then-bomb": "&e8;", "nbsp-then-external": "&x;", "bomb": "&e8;", "wide-bomb": "&big;" * 48, "ext-general-file": "&x;", "ext-general-http": "&x;", "public-ext": "&x;"}
LEADS = ["", "<!-- exported by a tool -->\n", '<?xml-stylesheet type="text/xsl" href="s.xsl"?>\n', "\n\n   \n", "<!-- a --><!-- b -->\n<?pi x?>\n",
         # long prologs: nothing bounds what may precede the DOCTYPE (licence banners, runs of PIs, blank padding)
         "<!-- " + "licence text " * 400 + "-->\n", "<?pi " + "x" * 60 + "?>\n" * 1 + "<?note y?>\n" * 900, " " * 5000 + "\n" * 3000,
         "<!-- " + "z" * 70000 + " -->\n",
         # the text "<!ENTITY" where it is not a declaration (commented-out DOCTYPE, processing instruction): nothing is declared
         "<!-- converted from xmlns=\"http://www.innotek.de/VirtualBox-settings\" -->\n",
         '<!-- <!DOCTYPE x [<!ENTITY a "b">]> -->\n', '<?editor note="<!ENTITY a SYSTEM \'file:///etc/passwd\'>"?>\n']
