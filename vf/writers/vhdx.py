"""Independent VHDX writer (fixed / dynamic / differencing). Layout per MS-VHDX; own tables only."""
from __future__ import annotations

import struct
import uuid

from vf.core import D, SECTOR, T, Z, Layer, PatternGen, SparseFile

MB = 1 << 20
KB64 = 64 * 1024


def G(s: str) -> bytes:
    return uuid.UUID(s).bytes_le


BAT_GUID = G("2DC27766-F623-4200-9D64-115E9BFD4A08")
META_GUID = G("8B7CA206-4790-4B9A-B8FE-575F050F886E")
FILE_PARAMETERS = G("CAA16737-FA36-4D43-B3B6-33F0AA44E76B")
VIRTUAL_DISK_SIZE = G("2FA54224-CD1B-4876-B211-5DBED83BF4B8")
VIRTUAL_DISK_ID = G("BECA12AB-B2E6-4523-93EF-C309E000C746")
LOGICAL_SECTOR_SIZE = G("8141BF1D-A96F-4709-BA47-F233A8FAAB5F")
PHYSICAL_SECTOR_SIZE = G("CDA348C7-445D-4471-9CC9-E9885251C556")
PARENT_LOCATOR = G("A8D35F2D-B30B-454D-ABF7-D3D84834AB0C")
VHDX_LOCATOR_TYPE = G("B04AEFB7-D19E-4A81-B789-25B8E9445913")

_CRC_TABLE = []


def crc32c(data: bytes) -> int:
    if not _CRC_TABLE:
        for i in range(256):
            c = i
            for _ in range(8):
                c = (c >> 1) ^ 0x82F63B78 if c & 1 else c >> 1
            _CRC_TABLE.append(c)
    t = _CRC_TABLE
    c = 0xFFFFFFFF
    for b in data:
        c = t[(c ^ b) & 0xFF] ^ (c >> 8)
    return c ^ 0xFFFFFFFF


def header(seq: int, fw: bytes, dw: bytes, log_off: int, log_len: int = MB, checksum: bool = True, log_guid: bytes = b"\0" * 16) -> bytes:
    h = struct.pack("<4sIQ16s16s16sHHIQ", b"head", 0, seq, fw, dw, log_guid, 0, 1, log_len, log_off)
    h = h.ljust(4096, b"\0")
    if checksum:
        h = h[:4] + struct.pack("<I", crc32c(h)) + h[8:]
    return h


def region_table(entries: list[tuple[bytes, int, int, int]], checksum: bool = True) -> bytes:
    t = struct.pack("<4sII4x", b"regi", 0, len(entries))
    for g, off, ln, req in entries:
        t += g + struct.pack("<QII", off, ln, req)
    t = t.ljust(KB64, b"\0")
    if checksum:
        t = t[:4] + struct.pack("<I", crc32c(t)) + t[8:]
    return t


def parent_locator(entries: list[tuple[str, str]], locator_type: bytes = VHDX_LOCATOR_TYPE, layout: str = "interleaved", rng=None) -> bytes:
    hdr = locator_type + struct.pack("<HH", 0, len(entries))
    table_len = 20 + 12 * len(entries)
    strings = []
    for k, v in entries:
        strings.append(("k", k.encode("utf-16-le")))
        strings.append(("v", v.encode("utf-16-le")))
    order = list(range(len(strings)))
    if layout == "keys-first":
        order = [i for i in order if i % 2 == 0] + [i for i in order if i % 2 == 1]
    elif layout == "values-first":
        order = [i for i in order if i % 2 == 1] + [i for i in order if i % 2 == 0]
    elif layout == "reversed":
        order.reverse()
    elif layout == "shuffled" and rng is not None:
        rng.shuffle(order)
    pos = table_len
    offs = {}
    blob = b""
    for i in order:
        if layout in ("shuffled", "padded") and rng is not None and rng.random() < 0.5:
            pad = 2 * rng.randrange(0, 5)
            blob += b"\0" * pad
            pos += pad
        offs[i] = pos
        blob += strings[i][1]
        pos += len(strings[i][1])
    tab = b""
    for n in range(len(entries)):
        tab += struct.pack("<IIHH", offs[2 * n], offs[2 * n + 1], len(strings[2 * n][1]), len(strings[2 * n + 1][1]))
    return hdr + tab + blob


def build(rng, *, block_size: int, sector_size: int, nblocks: int, tail_cut_sectors: int = 0, states=None,
          placement: str = "shuffle", tag: int = 1, kind: int = 0, seqs=(5, 9), stale: str = "valid",
          has_parent: bool = False, locator: bytes | None = None, partial: dict | None = None,
          disk_id: bytes | None = None, physical_sector_size: int = 4096, far_mb: int = 0, stale_offsets: bool = True,
          meta_item_order=None, item_gap: int = 0, creator: str | bytes | None = None, leave_alloc: bool = False,
          bat_mb: int | None = None, meta_mb: int | None = None, checksums: bool = True, meta_table_order=None, log_guids=(None, None),
          extra_regions=(), extra_items=(), items_at_region_end: bool = False, regions_last: bool = False):
    """-> (SparseFile, Layer, meta).

    states[i]: 0 not-present, 1 undefined, 2 zero, 3 unmapped, 6 fully present, 7 partially present.
    partial[i] = bytes of per-logical-sector flags (1 = present in this file) for state-7 blocks.
    extra_regions: [(guid, required 0/1)] region table entries of unknown type (a reader skips them unless required);
    extra_items: [(guid, data, flags)] metadata items of unknown type (flags: 1 user, 2 virtual disk, 4 required).
    """
    lsec = sector_size // SECTOR  # 512-byte sectors per logical sector
    spb = block_size // sector_size  # logical sectors per block
    size = nblocks * block_size - tail_cut_sectors * sector_size
    layer = Layer(size, block_size // SECTOR, tag, kind, default=T)
    ratio = (2**23 * sector_size) // block_size
    if states is None:
        states = [rng.choice([0, 1, 2, 3, 6, 6, 6]) for _ in range(nblocks)]
    partial = partial or {}
    nchunks = -(-nblocks // ratio)
    # region placement (MiB units)
    meta_mb = 2 if meta_mb is None else meta_mb
    bat_len_entries = nchunks * (ratio + 1) if has_parent else nblocks + ((nblocks - 1) // ratio if nblocks else 0)
    bat_bytes = max(8 * bat_len_entries, 8)
    bat_len_mb = -(-bat_bytes // MB)
    bat_mb = (meta_mb + 1) if bat_mb is None else bat_mb
    first_data_mb = max(meta_mb + 1, bat_mb + bat_len_mb, 2)  # log lives at 1 MiB
    # payload placement
    present = [i for i, s in enumerate(states) if s in (6, 7)]
    blk_mb = block_size // MB
    order = list(present)
    if placement == "shuffle":
        rng.shuffle(order)
    elif placement == "rev":
        order.reverse()
    elif placement == "runs":
        groups, cur = [], []
        for i in order:
            cur.append(i)
            if rng.random() < 0.4:
                groups.append(cur)
                cur = []
        if cur:
            groups.append(cur)
        rng.shuffle(groups)
        order = [i for g in groups for i in g]
    pos_mb = {}
    if regions_last:
        # payload blocks first (right behind the log), the metadata region and the BAT behind them: regions may sit anywhere
        first_data_mb = 2
    cursor = first_data_mb
    far_cursor = far_mb
    # sector bitmap blocks first (one per chunk that has a partial block)
    sb_mb = {}
    chunks_with_partial = sorted({i // ratio for i, s in enumerate(states) if s == 7})
    for c in chunks_with_partial:
        if far_mb and rng.random() < 0.5:
            sb_mb[c] = far_cursor
            far_cursor += 1 + rng.randrange(0, 3)
        else:
            sb_mb[c] = cursor
            cursor += 1
    for i in order:
        if far_mb and rng.random() < 0.5:
            pos_mb[i] = far_cursor
            far_cursor += blk_mb + rng.randrange(0, 3)
            continue
        if placement != "seq" and rng.random() < 0.2:
            cursor += rng.randrange(1, 4)
        pos_mb[i] = cursor
        cursor += blk_mb
    if regions_last:
        meta_mb = cursor + rng.randrange(0, 3)
        bat_mb = meta_mb + 1 + rng.randrange(0, 3)
        cursor = bat_mb + bat_len_mb
    # BAT
    bat = [0] * bat_len_entries
    for i, st in enumerate(states):
        idx = i + i // ratio
        if st in (6, 7):
            bat[idx] = st | (pos_mb[i] << 20)
        elif st in (0, 1, 2, 3) and stale_offsets and i > 0 and states[i - 1] == 6 and rng.random() < 0.5:
            # leftover offset of a trimmed block, exactly where it would follow its (present) predecessor in the file
            bat[idx] = st | ((pos_mb[i - 1] + blk_mb) << 20)
        elif st in (1, 2, 3) and stale_offsets and rng.random() < 0.5:
            # leftover offset of a block that no longer counts: must be ignored by readers
            bat[idx] = st | (rng.randrange(first_data_mb, first_data_mb + 64) << 20)
        else:
            bat[idx] = st
        if st == 6:
            layer.units[i] = D
        elif st == 7:
            flags = partial[i]
            layer.units[i] = ("P", lsec, bytes(D if f else T for f in flags))
        elif st == 0:
            layer.units[i] = T
        else:
            layer.units[i] = Z
    for c, mb in sb_mb.items():
        bat[(c + 1) * ratio + c] = 6 | (mb << 20)
    sf = SparseFile()
    if creator is None:
        # the creator field (512 bytes of UTF-16) is informational: "parsers must not depend on it". Writers leave a terminated
        # string followed by whatever the buffer held before, or fill the whole field; drawn from a private generator so that
        # the caller's random stream is the same for every choice
        import random as _random

        r2 = _random.Random(tag ^ 0x5EED)
        creator = r2.choice(["vf writer", "vf writer",
                             "vf writer\0".encode("utf-16-le") + b"\x00\xd8" + bytes(r2.randrange(256) for _ in range(r2.randrange(1, 60))),
                             "vf\0".encode("utf-16-le") + b"\x41\xdc\x00\xdc\xff",
                             ("M" * 256).encode("utf-16-le"),
                             b""])
    fid = b"vhdxfile" + (creator if isinstance(creator, bytes) else creator.encode("utf-16-le"))
    sf.put(0, fid.ljust(512 + 8, b"\0")[:520])
    fw = bytes(rng.randrange(256) for _ in range(16))
    dw = bytes(rng.randrange(256) for _ in range(16))
    h1 = header(seqs[0], fw, dw, MB, checksum=checksums, log_guid=log_guids[0] or b"\0" * 16)
    h2 = header(seqs[1], fw, dw, MB, checksum=checksums, log_guid=log_guids[1] or b"\0" * 16)
    if stale == "zero":
        # the non-current header is blank (e.g. a freshly created file before the second header update)
        if seqs[0] > seqs[1]:
            h2 = b"\0" * 4096
        else:
            h1 = b"\0" * 4096
    sf.put(KB64, h1)
    sf.put(2 * KB64, h2)
    regions = [(BAT_GUID, bat_mb * MB, bat_len_mb * MB, 1), (META_GUID, meta_mb * MB, MB, 1)]
    for j, (g, req) in enumerate(extra_regions):
        # unknown regions live far behind everything else (1 MiB each, never read by anybody)
        regions.append((g, ((1 << 40) + j) * MB, MB, req))
    if rng.random() < 0.5:
        regions.reverse()
    if extra_regions:
        rng.shuffle(regions)
    rt = region_table(regions, checksum=checksums)
    sf.put(3 * KB64, rt)
    sf.put(4 * KB64, rt)
    # metadata region
    disk_id = disk_id or bytes(rng.randrange(256) for _ in range(16))
    fp_flags = (1 if leave_alloc else 0) | (2 if has_parent else 0)
    items = [
        (FILE_PARAMETERS, struct.pack("<II", block_size, fp_flags), 4),
        (VIRTUAL_DISK_SIZE, struct.pack("<Q", size), 6),
        (LOGICAL_SECTOR_SIZE, struct.pack("<I", sector_size), 6),
        (PHYSICAL_SECTOR_SIZE, struct.pack("<I", physical_sector_size), 6),
        (VIRTUAL_DISK_ID, disk_id, 6),
    ]
    if has_parent:
        items.append((PARENT_LOCATOR, locator, 4))
    elif locator is not None:
        # a disk that is not differencing (HasParent clear) but still carries the locator item of its former parent, as left
        # behind by a merge / conversion: the flag decides, the item is just another item
        items.append((PARENT_LOCATOR, locator, rng.choice([0, 4])))
    items.extend(extra_items)
    if meta_item_order == "shuffle":
        rng.shuffle(items)
    elif meta_item_order == "rev":
        items.reverse()
    mt = struct.pack("<8s2xH20x", b"metadata", len(items))
    off = KB64 + item_gap
    if items_at_region_end:
        # the items are packed against the end of the 1 MiB metadata region: the last one ends exactly where the region ends
        stored = [d for _g, d, _fl in items if d]
        off = MB - sum(len(d) for d in stored) - item_gap * (len(stored) - 1)
        assert off >= KB64
    blob = {}
    entries = []
    for g, d, fl in items:
        if not d:
            # an empty item: offset and length are both zero
            entries.append(g + struct.pack("<III4x", 0, 0, fl))
            continue
        entries.append(g + struct.pack("<III4x", off, len(d), fl))
        blob[off] = d
        off += len(d) + (item_gap if item_gap else 0)
        if not items_at_region_end:
            off = -(-off // 8) * 8
        assert off <= MB + item_gap
    # the order of the table entries is independent of where the items are stored
    if meta_table_order == "shuffle":
        rng.shuffle(entries)
    elif meta_table_order == "rev":
        entries.reverse()
    mt += b"".join(entries)
    sf.put(meta_mb * MB, mt)
    for o, d in blob.items():
        sf.put(meta_mb * MB + o, d)
    sf.put(bat_mb * MB, struct.pack(f"<{len(bat)}Q", *bat))
    bsec = block_size // SECTOR
    for i in present:
        sf.put(pos_mb[i] * MB, PatternGen(layer, i * bsec, bsec))
    # sector bitmaps
    for i, st in enumerate(states):
        if st != 7:
            continue
        c, bic = divmod(i, ratio)
        flags = partial[i]
        bits = bytearray(-(-spb // 8))
        for n, f in enumerate(flags):
            if f:
                bits[n // 8] |= 1 << (n % 8)
        start_bit = bic * spb
        assert start_bit % 8 == 0
        sf.put(sb_mb[c] * MB + start_bit // 8, bytes(bits))
    end_mb = max([cursor] + [m + blk_mb for m in pos_mb.values()] + [m + 1 for m in sb_mb.values()])
    sf.size = end_mb * MB
    meta = {
        "size": size, "block_size": block_size, "sector_size": sector_size, "states": list(states), "ratio": ratio,
        "pos_mb": {str(k): v for k, v in pos_mb.items()}, "disk_id": disk_id.hex(), "seqs": list(seqs),
        "bat_entries": bat_len_entries, "metadata_bytes": 5 * KB64 + 4096 + 8 * bat_len_entries + 1024,
        "physical_sector_size": physical_sector_size, "has_parent": has_parent, "bat_mb": bat_mb, "meta_mb": meta_mb,
        "fw": fw.hex(), "dw": dw.hex(), "creator": creator.hex() if isinstance(creator, bytes) else creator,
    }
    return sf, layer, meta
