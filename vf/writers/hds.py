"""Independent Parallels HDS (expanding image) and .hdd directory writer."""
from __future__ import annotations

import os
import struct
from xml.sax.saxutils import escape

from vf.core import D, SECTOR, T, Layer, PatternGen, SparseFile

SIG_V1 = b"WithoutFreeSpace"
SIG_V2 = b"WithouFreSpacExt"
DEFAULT_TOP = "{5fbaabe3-6958-40ff-92a7-860e329aab41}"
NULL_GUID = "{00000000-0000-0000-0000-000000000000}"


def build_hds(rng, *, version: int, m_sectors: int, nclusters: int, tail_cut_sectors: int = 0, states=None,
              placement: str = "shuffle", tag: int = 1, kind: int = 0, unaligned_v1: bool = False,
              first_block_gap: int = 0, in_use: bool = False, far_sectors: int = 0):
    """-> (SparseFile, Layer, meta). states[i] in {'A','U'}."""
    cs = m_sectors * SECTOR
    size_sectors = nclusters * m_sectors - tail_cut_sectors
    size = size_sectors * SECTOR
    layer = Layer(size, m_sectors, tag, kind, default=T)
    if states is None:
        states = [rng.choice("AAU") for _ in range(nclusters)]
    hdr_end = 64 + 4 * nclusters
    if version == 2 or not unaligned_v1:
        first_block = -(-hdr_end // cs) * cs + first_block_gap * cs
    else:
        first_block = -(-hdr_end // SECTOR) * SECTOR + first_block_gap * SECTOR
    alloc = [i for i, s in enumerate(states) if s == "A"]
    taken: dict[int, int] = {}  # file offset -> logical cluster
    pos: dict[int, int] = {}

    def free(off: int) -> bool:
        if off < first_block:
            return False
        return all(not (o < off + cs and off < o + cs) for o in taken)

    step = cs if (version == 2 or not unaligned_v1) else SECTOR
    if placement == "coincidence":
        # put a cluster that follows a run of k unallocated clusters at file offset k*cs (- in-cluster starts)
        for i in alloc:
            k = 0
            j = i - 1
            while j >= 0 and states[j] == "U":
                k += 1
                j -= 1
            if k == 0:
                continue
            cands = [k * cs]
            if version == 1 and unaligned_v1:
                cands += [k * cs - SECTOR * d for d in (1, 2, m_sectors - 1) if k * cs - SECTOR * d > 0]
            rng.shuffle(cands)
            for c in cands:
                if c % step == 0 and free(c):
                    taken[c] = i
                    pos[i] = c
                    break
    rest = [i for i in alloc if i not in pos]
    order = list(rest)
    if placement in ("shuffle", "coincidence"):
        rng.shuffle(order)
    elif placement == "rev":
        order.reverse()
    elif placement == "runs":
        groups, cur = [], []
        for i in order:
            cur.append(i)
            if rng.random() < 0.4:
                groups.append(cur)
                cur = []
        if cur:
            groups.append(cur)
        rng.shuffle(groups)
        order = [i for g in groups for i in g]
    cursor = first_block
    for i in order:
        if far_sectors and rng.random() < 0.3:
            c = -(-(far_sectors * SECTOR + rng.randrange(1 << 20) * step) // step) * step
            while not free(c):
                c += cs
        else:
            c = cursor
            while not free(c):
                c += step
            if placement != "seq" and rng.random() < 0.15:
                c2 = c + step * rng.randrange(1, 4)
                if free(c2):
                    c = c2
            cursor = c + cs
        taken[c] = i
        pos[i] = c
    bat = []
    for i, s in enumerate(states):
        if s == "A":
            layer.units[i] = D
            bat.append(pos[i] // SECTOR if version == 1 else pos[i] // cs)
        else:
            layer.units[i] = T
            bat.append(0)
    sig = SIG_V1 if version == 1 else SIG_V2
    hdr = sig + struct.pack("<IIIII", 2, 16, max(1, size_sectors // (16 * max(m_sectors, 1))), m_sectors, nclusters)
    if version == 1:
        # version 1 stores a 32-bit size; the following word is unused and not necessarily zero (readers mask it off)
        hdr += struct.pack("<II", size_sectors & 0xFFFFFFFF, rng.choice([0, 0, 1, 0xDEADBEEF, rng.getrandbits(32)]))
    else:
        hdr += struct.pack("<Q", size_sectors)
    # the first-block-offset field is informational (the BAT entries are absolute); old version-1 images leave it empty
    fbo_field = first_block // SECTOR
    if version == 1 and rng.random() < 0.25:
        fbo_field = rng.choice([0, 0, 1])
    hdr += struct.pack("<IIIQ", 0x746F6E59 if in_use else 0, fbo_field, 0, 0)
    assert len(hdr) == 64
    sf = SparseFile()
    sf.put(0, hdr + struct.pack(f"<{nclusters}I", *bat))
    for i, c in pos.items():
        sf.put(c, PatternGen(layer, i * m_sectors, m_sectors))
    sf.size = max(sf.end, first_block)
    meta = {
        "version": version, "cluster_size": cs, "size": size, "bat": bat, "first_block": first_block, "first_block_field": fbo_field,
        "states": "".join(states), "metadata_bytes": hdr_end, "in_use": in_use,
    }
    return sf, layer, meta


def descriptor_xml(storages: list[dict], shots: list[tuple[str, str]], top_guid: str | None = None,
                   doctype: str = "", pretty: bool = True) -> str:
    """storages: [{start,end,images:[{guid,type,file}]}]; shots: [(guid, parent_guid)]."""
    nl = "\n" if pretty else ""
    out = ['<?xml version="1.0" encoding="UTF-8"?>', doctype, '<Parallels_disk_image Version="1.0">']
    total = max((s["end"] for s in storages), default=0)
    out.append(f"<Disk_Parameters><Disk_size>{total}</Disk_size><Cylinders>1</Cylinders><Heads>16</Heads>"
               f"<Sectors>32</Sectors><Padding>0</Padding></Disk_Parameters>")
    out.append("<StorageData>")
    for s in storages:
        out.append(f"<Storage><Start>{s['start']}</Start><End>{s['end']}</End><Blocksize>{s.get('blocksize', 2048)}</Blocksize>")
        for im in s["images"]:
            out.append(f"<Image><GUID>{im['guid']}</GUID><Type>{im['type']}</Type><File>{escape(im['file'])}</File></Image>")
        out.append("</Storage>")
    out.append("</StorageData>")
    out.append("<Snapshots>")
    if top_guid is not None:
        out.append(f"<TopGUID>{top_guid}</TopGUID>")
    for g, p in shots:
        out.append(f"<Shot><GUID>{g}</GUID><ParentGUID>{p}</ParentGUID></Shot>")
    out.append("</Snapshots>")
    out.append("</Parallels_disk_image>")
    return nl.join(x for x in out if x)


def write_hdd_dir(path: str, storages: list[dict], shots, top_guid=None, files: dict | None = None, doctype: str = "") -> None:
    os.makedirs(path, exist_ok=True)
    with open(os.path.join(path, "DiskDescriptor.xml"), "w", encoding="utf-8") as fh:
        fh.write(descriptor_xml(storages, shots, top_guid, doctype))
    for name, content in (files or {}).items():
        p = os.path.join(path, name)
        os.makedirs(os.path.dirname(p), exist_ok=True)
        if isinstance(content, SparseFile):
            content.write_to(p)
        else:
            with open(p, "wb") as fh:
                fh.write(content)
