"""Independent ESXi visor tar (vmtar) writer; layout confirmed against the repository sample."""
from __future__ import annotations

import struct

PAGE = 4096


def _oct(n: int, width: int) -> bytes:
    return (f"{n:0{width - 1}o}").encode() + b"\0"


_MAGIC_TAIL = [b"\0"]  # byte 264: the 7-byte magic "visor  " is what identifies the format, the byte behind it varies by writer


def header(name: bytes, size: int, typ: bytes = b"0", *, visor: bool = True, offset_data: int = 0, text_pgs: int = 0, fixup_pgs: int = 0,
           mode: int = 0o644, uid: int = 0, gid: int = 0, mtime: int = 0, linkname: bytes = b"", prefix: bytes = b"", uname: bytes = b"root",
           gname: bytes = b"root", gnu: bool = False, word2: int = 0) -> bytes:
    # a ustar prefix may use all 155 bytes (345..499); in a visor header the last bytes of that field are the data offset
    assert len(name) <= 100 and len(prefix) <= (150 if visor else 155) and len(linkname) <= 100
    b = bytearray(512)
    b[0 : len(name)] = name
    b[100:108] = _oct(mode, 8)
    b[108:116] = _oct(uid, 8)
    b[116:124] = _oct(gid, 8)
    b[124:136] = _oct(size, 12)
    b[136:148] = _oct(mtime, 12)
    b[156:157] = typ
    b[157 : 157 + len(linkname)] = linkname
    if visor:
        b[257:265] = b"visor  " + _MAGIC_TAIL[0]
    elif gnu:
        b[257:265] = b"ustar  \0"
    else:
        b[257:263] = b"ustar\0"
        b[263:265] = b"00"
    b[265 : 265 + len(uname)] = uname
    b[297 : 297 + len(gname)] = gname
    b[345 : 345 + len(prefix)] = prefix
    if visor:
        # the word after the data offset is not the offset's upper half (vmtar keeps a text-segment offset there)
        b[496:512] = struct.pack("<IIII", offset_data, word2, text_pgs, fixup_pgs)
    b[148:156] = b" " * 8
    chk = sum(b)
    b[148:156] = (f"{chk:06o}").encode() + b"\0 "
    return bytes(b)


def pax_records(records: list[tuple[str, str]]) -> bytes:
    """POSIX.1-2001 extended header records: '<length> <key>=<value>\\n', the length counting itself."""
    out = b""
    for k, v in records:
        body = f" {k}={v}\n".encode()
        n = len(body) + 1
        while len(str(n)) + len(body) != n:
            n = len(str(n)) + len(body)
        out += str(n).encode() + body
    return out


def build(rng, members: list[dict], *, data_order: str = "shuffle", align: int = PAGE, trailing: int = 0, gap_prob: float = 0.2,
          far: bool = False, magic_tail: bytes = b"\0"):
    _MAGIC_TAIL[0] = magic_tail
    try:
        return _build(rng, members, data_order=data_order, align=align, trailing=trailing, gap_prob=gap_prob, far=far)
    finally:
        _MAGIC_TAIL[0] = b"\0"


def _build(rng, members: list[dict], *, data_order: str = "shuffle", align: int = PAGE, trailing: int = 0, gap_prob: float = 0.2,
           far: bool = False):
    """members: dicts with name(str), kind in file|dir|sym|empty|std (inline ustar/GNU member), data(bytes), longname(bool), prefix(bool).

    -> (bytes, expected) where expected = [(name, kind, size, data|linkname)] in header order.
    """
    hdrs = []  # list of (bytes | ("visor", member index))
    std_data_at = {}  # member index of an inline member -> index in hdrs of its data blocks
    expected = []
    visor_files = []
    for i, m in enumerate(members):
        name = m["name"]
        kind = m["kind"]
        nb = name.encode("utf-8", "surrogateescape")  # (names are bytes on disk; readers map undecodable ones to surrogates)
        prefix = b""
        pre = []
        if len(nb) > 100 or m.get("longname"):
            if m.get("prefix") and "/" in name and len(nb) <= 255:
                # ustar prefix: <= 150 bytes in visor headers (it must not touch the visor fields at 496..511), the
                # full 155 bytes for ordinary inline members
                lim = 155 if kind == "std" else 150
                cut = name.rfind("/", 0, min(len(name), lim + 1))
                p, rest = name[:cut].encode("utf-8", "surrogateescape"), name[cut + 1 :].encode("utf-8", "surrogateescape")
                if 0 < len(p) <= lim and 0 < len(rest) <= 100:
                    prefix, nb = p, rest
            if not prefix:
                ln = nb + b"\0"
                pre.append(header(b"././@LongLink", len(ln), b"L", visor=m.get("visor_longlink", False), gnu=True))
                pre.append(ln.ljust(-(-len(ln) // 512) * 512, b"\0"))
                nb = nb[:100]
        if m.get("pax"):
            # a pax extended header in front of the member (records such as mtime, comment, size, path)
            # a size record (value None) repeats the member's actual size
            rec = pax_records([(k_, str(len(m.get("data", b""))) if v_ is None else v_) for k_, v_ in m["pax"]])
            paxh = [header(b"PaxHeaders/" + nb[:80], len(rec), m.get("pax_type", b"x"), visor=m.get("visor_pax", False)), rec.ljust(-(-len(rec) // 512) * 512, b"\0")]
            # extension headers stack in either order: long name then pax records, or pax records then long name
            pre = (paxh + pre) if m.get("pax_first") else (pre + paxh)
        for p in pre:
            hdrs.append(p)
        if m.get("typeflag") == b"\0" and nb.endswith(b"/"):
            # an old-style (NUL typeflag) regular member whose 100-byte name field ends in "/" is a directory to
            # every V7-compatible reader (CPython's tarfile decides that on the name field, before a GNU long name
            # is applied): not a regular member in the sense of the property, so it is written with typeflag "0"
            m = dict(m, typeflag=b"0")
            members[i] = m
        if kind == "dir":
            hdrs.append(header(nb if nb.endswith(b"/") or len(nb) >= 100 else nb + b"/", 0, b"5", prefix=prefix, mode=0o755))
            expected.append((name.rstrip("/"), "dir", 0, None))
        elif kind == "sym":
            hdrs.append(header(nb, 0, b"2", linkname=m["target"].encode(), prefix=prefix))
            expected.append((name, "sym", 0, m["target"]))
        elif kind == "empty":
            hdrs.append(header(nb, 0, m.get("typeflag", b"0"), offset_data=m.get("offset", 0), prefix=prefix))
            expected.append((name, "file", 0, b""))
        elif kind == "std":
            data = m["data"]
            hdrs.append(header(nb, len(data), m.get("typeflag", b"0"), visor=False, prefix=prefix, gnu=not prefix and rng.random() < 0.5, mode=m.get("mode", 0o644)))
            std_data_at[i] = len(hdrs)
            hdrs.append(data.ljust(-(-len(data) // 512) * 512, b"\0"))
            expected.append((name, "file", len(data), data))
        else:
            hdrs.append(("visor", i, nb, prefix))
            visor_files.append(i)
            expected.append((name, "file", len(m["data"]), m["data"]))
    header_len = sum(512 if isinstance(h, tuple) else len(h) for h in hdrs) + 1024
    pos = -(-header_len // align) * align if align else header_len
    order = list(visor_files)
    if data_order == "shuffle":
        rng.shuffle(order)
    elif data_order == "rev":
        order.reverse()
    offs = {}
    blobs = []
    # visor members whose data offset points back into the header area (at the inline data of an earlier ordinary member):
    # the recorded offset is absolute, it may well be smaller than the offset of the member's own header
    hpos, acc = [], 0
    for h in hdrs:
        hpos.append(acc)
        acc += 512 if isinstance(h, tuple) else len(h)
    for i in list(order):
        src = members[i].get("alias_of")
        if src is not None and src in std_data_at and src < i:
            delta = members[i].get("alias_delta", 0)
            offs[i] = hpos[std_data_at[src]] + delta
            order.remove(i)
    for i in order:
        d = members[i]["data"]
        if members[i].get("share") is not None and members[i]["share"] in offs and members[members[i]["share"]]["data"] == d:
            offs[i] = offs[members[i]["share"]]  # two members pointing at the same (equal) data
            continue
        if rng.random() < gap_prob:
            pos += (align or 1) * rng.randrange(1, 3)
        if far and pos < (1 << 31) and rng.random() < 0.4:
            # data areas at or beyond 2 GiB (the recorded offset is an unsigned 32-bit value)
            pos = rng.choice([(1 << 31) - (align or 512), 1 << 31, (1 << 31) + 3 * (align or 512), (3 << 30) + (align or 512)])
        offs[i] = pos
        blobs.append((pos, d))
        pos += len(d)
        if align:
            pos = -(-pos // align) * align
    if far and blobs and rng.random() < 0.5:
        # the member stored last starts just below 4 GiB and ends beyond it (only the start offset is a 32-bit field)
        lpos, ld = blobs[-1]
        owners = [i_ for i_, o_ in offs.items() if o_ == lpos]
        npos = (1 << 32) - rng.choice([512, align or 512, 1])
        if len(ld) >= 2 and npos > lpos and all(o_ + len(d_) <= npos for o_, d_ in blobs[:-1]):
            blobs[-1] = (npos, ld)
            for i_ in owners:
                offs[i_] = npos
    out = bytearray()
    for h in hdrs:
        if isinstance(h, tuple):
            _, i, nb, prefix = h
            d = members[i]["data"]
            # with a pax size record in front, the size field of the header itself may be left at zero (the record decides)
            out += header(nb, 0 if members[i].get("hdr_size_zero") else len(d), members[i].get("typeflag", b"0"), offset_data=offs[i], prefix=prefix, mode=members[i].get("mode", 0o644), text_pgs=members[i].get("text_pgs", 0),
                          fixup_pgs=members[i].get("fixup_pgs", 0), word2=members[i].get("word2", 0))
        else:
            out += h
    out += b"\0" * 1024
    total = max([len(out)] + [o + len(d) for o, d in blobs]) + trailing
    if far:
        from vf.core import SparseFile

        sf = SparseFile(total)
        sf.put(0, bytes(out))
        for o, d in blobs:
            if d:
                sf.put(o, d)
        return sf, expected, offs
    out = out.ljust(total, b"\0")
    for o, d in blobs:
        out[o : o + len(d)] = d
    return bytes(out), expected, offs
