"""Independent ESXi envelope (DataTransformEnvelope v2, AES-256-GCM) and keystore writer."""
from __future__ import annotations

import base64
import hashlib
import struct
from urllib.parse import quote

from Crypto.Cipher import AES

BLOCK = 4096
SALT = b"This is obfuscation, not encryption. If you want encryption, use TPM."
T_U8, T_U16, T_U32, T_U64, T_I8, T_I16, T_I32, T_I64, T_FLOAT, T_DOUBLE, T_STRING, T_BYTES = range(1, 13)
FMT = {T_U8: "<B", T_U16: "<H", T_U32: "<I", T_U64: "<Q", T_I8: "<b", T_I16: "<h", T_I32: "<i", T_I64: "<q", T_FLOAT: "<f", T_DOUBLE: "<d"}


def attr_record(name: str, typ: int, flag: int, value) -> bytes:
    rec = struct.pack("<BBH", typ, flag, 0) + name.encode() + b"\0"
    if typ == T_STRING:
        rec += value.encode() + b"\0"
    elif typ == T_BYTES:
        rec += struct.pack("<Q", len(value)) + value
    else:
        rec += struct.pack(FMT[typ], value)
    return rec


def header_block(attrs: list[tuple], version: int = 2, magic: bytes = b"DataTransformEnvelope"):
    """-> (4096-byte block, {name: (offset_of_record, record_len, value_offset, value_len)})"""
    body = b""
    index = {}
    for name, typ, flag, value in attrs:
        rec = attr_record(name, typ, flag, value)
        vlen = len(rec) - (4 + len(name.encode()) + 1)
        index[name] = (512 + len(body), len(rec), 512 + len(body) + len(rec) - vlen, vlen)
        body += rec
    body += b"\0" * 4
    total = -(-(512 + len(body)) // BLOCK) * BLOCK
    assert total == BLOCK, "attributes do not fit the header block"
    hdr = magic.ljust(21, b"\0")[:21] + b"\0" * 483 + struct.pack("<II", total - 512, version)
    return (hdr + body).ljust(total, b"\0"), index


def build(rng, *, payload: bytes, key: bytes, iv: bytes, extra_attrs: list[tuple] | None = None, aad: bytes | None = None,
          padding: int = 0, key_info: str = "7e62cec5-6aef-4d7e-838b-cae32eefd251", cipher_name: str = "AES-256-GCM",
          version: int = 2, footer_version: int = 1, order: str = "sample", key_hash: bytes | None = None, tag_size_field: int = 16,
          fill: int | None = None):
    """fill: add a bytes attribute sized so that the attribute area ends `fill` bytes before the end of the 4096-byte
    header block (0 = the terminator ends exactly at the block end, no padding at all)."""
    req = [
        ("vmware.iv", T_BYTES, 0, iv),
        ("vmware.keyInfo", T_STRING, 0, key_info),
        ("vmware.cipherName", T_STRING, 0, cipher_name),
        ("vmware.keyHash", T_BYTES, 0, key_hash if key_hash is not None else hashlib.sha256(cipher_name.encode() + key).digest()),
    ]
    attrs = req + list(extra_attrs or [])
    if fill is not None:
        used = sum(len(attr_record(*a)) for a in attrs)
        vlen = BLOCK - 512 - 4 - used - (4 + len("x.fill") + 1 + 8) - fill
        if vlen >= 0:
            attrs.append(("x.fill", T_BYTES, 0, bytes(rng.randrange(256) for _ in range(vlen))))
    if order == "shuffle":
        rng.shuffle(attrs)
    hdr, index = header_block(attrs, version=version)
    pad = bytes(rng.randrange(256) for _ in range(padding))
    crypto_footer = bytes(rng.randrange(256) for _ in range(BLOCK - 512))
    crypto_footer += b"DataTransformCryptoFooter".ljust(25, b"\0") + b"\0" * 479 + struct.pack("<II", padding, 2)
    assert len(crypto_footer) == BLOCK
    cipher = AES.new(key, AES.MODE_GCM, nonce=iv)
    cipher.update(hdr)
    if aad:
        cipher.update(aad)
    ct, tag = cipher.encrypt_and_digest(payload + pad + crypto_footer)
    aead = b"DataTransformAeadFooter".ljust(23, b"\0") + b"\0" * 9 + tag.ljust(4056, b"\0") + struct.pack("<II", tag_size_field, footer_version)
    assert len(aead) == BLOCK
    raw = hdr + ct + aead
    meta = {"attr_index": index, "ct_off": BLOCK, "ct_len": len(ct), "tag_off": BLOCK + len(ct) + 32, "aead_off": BLOCK + len(ct),
            "payload_len": len(payload), "padding": padding}
    return raw, meta


def keystore_text(rng, *, key_id: bytes, data1: bytes, data2: bytes, style: int = 0, mode: str | None = "NONE", extra: dict | None = None,
                  superseded_first: bool = False) -> str:
    q = lambda b: quote(base64.b64encode(b).decode(), safe="")  # noqa: E731
    enc = f"keyId={q(key_id)}:data1={q(data1)}:data2={q(data2)}:version=1"
    lines = ['.encoding = "UTF-8"', 'includeKeyCache = "FALSE"']
    if mode is not None:
        lines.append(f'mode = "{mode}"')
    if superseded_first and style != 1:
        # an earlier assignment of the same name (a rotated key whose old line was left in place): the later one is in force
        old = f"keyId={q(key_id)}:data1={q(bytes(rng.randrange(256) for _ in range(len(data1))))}:data2={q(bytes(rng.randrange(256) for _ in range(len(data2))))}:version=1"
        lines.append(f'ConfigEncData = "{old}"')
    lines.append(f'ConfigEncData = "{enc}"')
    for k, v in (extra or {}).items():
        lines.append(f'{k} = "{v}"')
    if style == 1:
        rng.shuffle(lines)
    elif style == 2:
        lines = [ln.replace(" = ", "=") for ln in lines]
    elif style == 3:
        out = []
        for ln in lines:
            out.append("# " + ln.split("=")[0])
            out.append("   " + ln.replace(" = ", "   =   ") + "   ")
            out.append("")
        lines = out
    elif style == 4:
        lines = [ln + "\r" for ln in lines]
    return "\n".join(lines) + "\n"


def derive(data1: bytes, data2: bytes) -> bytes:
    return hashlib.pbkdf2_hmac("sha256", data1 + SALT, data2, 100000)
