"""Independent QCOW2 (v2/v3) writer: standard and extended L2, compressed clusters, external data file,
backing file name, header extensions, internal snapshots. Own layout tables only."""
from __future__ import annotations

import hashlib
import struct
import zlib

from vf.core import D, SECTOR, T, Z, Layer, PatternGen, Placer, SparseFile

MAGIC = 0x514649FB
COPIED = 1 << 63
COMPRESSED = 1 << 62
EXT_BACKING_FORMAT = 0xE2792ACA
EXT_FEATURE_TABLE = 0x6803F857
EXT_DATA_FILE = 0x44415441
EXT_BITMAPS = 0x23852875
EXT_CRYPTO = 0x0537BE77


def deflate_raw(data: bytes, level: int = 6, final: bool = True) -> bytes:
    co = zlib.compressobj(level, zlib.DEFLATED, -12)
    # final=False: all of the cluster's data, flushed, but no final block - a reader needs the cluster's bytes, not the end mark
    return co.compress(data) + (co.flush() if final else co.flush(zlib.Z_SYNC_FLUSH))


def extension(magic: int, data: bytes) -> bytes:
    return struct.pack(">II", magic, len(data)) + data + b"\0" * ((8 - len(data) % 8) % 8)


def snapshot_entry(l1_off: int, l1_size: int, id_str: bytes, name: bytes, *, extra_size: int = 16, vm_state_large: int = 0,
                   disk_size: int = 0, icount: int = 0, date_sec: int = 0, date_nsec: int = 0, vm_clock: int = 0,
                   vm_state_size: int = 0, extra_tail: bytes = b"") -> bytes:
    extra = struct.pack(">QQQ", vm_state_large, disk_size, icount) + extra_tail
    extra = extra[:extra_size].ljust(extra_size, b"\xEE")
    e = struct.pack(">QIHHIIQII", l1_off, l1_size, len(id_str), len(name), date_sec, date_nsec, vm_clock, vm_state_size, extra_size)
    e += extra + id_str + name
    return e + b"\0" * ((8 - len(e) % 8) % 8)


class View:
    """One guest view (active image or a snapshot): cluster kinds + the layer that models it."""

    def __init__(self, kinds: dict, layer: Layer, submaps: dict | None = None):
        self.kinds = kinds        # {guest cluster: kind}
        self.layer = layer
        self.submaps = submaps or {}  # {guest cluster: (alloc_mask, zero_mask)} for ext-L2 clusters


def make_view(rng, *, size: int, cluster_bits: int, kinds, extl2: bool, tag: int, submaps: dict | None = None) -> View:
    """kinds: list or {cluster: kind}; kind in N (normal) Z (zero plain) z (zero alloc) U (unallocated) C (compressed)
    S (ext-L2 allocated cluster with a random sub-cluster bitmap) u (ext-L2 unallocated cluster with zero bits)."""
    cs = 1 << cluster_bits
    spc = cs // SECTOR
    layer = Layer(size, spc, tag, 1, default=T)  # compressible pattern so compressed clusters really shrink
    if not isinstance(kinds, dict):
        kinds = {g: k for g, k in enumerate(kinds) if k != "U"}
    submaps = dict(submaps or {})
    sub_sectors = spc // 32 if extl2 else spc
    for g, k in kinds.items():
        if k in ("N", "C"):
            layer.units[g] = D
        elif k == "=":
            # shares the host cluster of the guest cluster before it (two identical L2 entries, as after de-duplication):
            # it holds the very same bytes
            from vf.core import sector_bytes

            layer.units[g] = D
            for s_ in range(spc):
                layer.override[g * spc + s_] = layer.override.get((g - 1) * spc + s_) or sector_bytes(tag, (g - 1) * spc + s_, 1)
        elif k in ("Z", "z"):
            layer.units[g] = Z
        elif k == "S":
            if g not in submaps:
                cls = rng.choice(["random", "alt", "single", "prefix", "suffix", "allzero", "none", "runs"])
                if cls == "random":
                    alloc = rng.getrandbits(32)
                    zero = rng.getrandbits(32) & ~alloc
                elif cls == "alt":
                    alloc = 0x55555555 if rng.random() < 0.5 else 0xAAAAAAAA
                    zero = rng.choice([0, ~alloc & 0xFFFFFFFF, rng.getrandbits(32) & ~alloc])
                elif cls == "single":
                    alloc = 1 << rng.randrange(32)
                    zero = rng.choice([0, (1 << rng.randrange(32)) & ~alloc])
                elif cls == "prefix":
                    n = rng.randrange(1, 32)
                    alloc = (1 << n) - 1
                    zero = rng.choice([0, (~alloc) & 0xFFFFFFFF])
                elif cls == "suffix":
                    n = rng.randrange(1, 32)
                    alloc = ((1 << n) - 1) << (32 - n)
                    zero = rng.choice([0, (~alloc) & 0xFFFFFFFF])
                elif cls == "allzero":
                    alloc, zero = 0, 0xFFFFFFFF
                elif cls == "none":
                    alloc, zero = 0, 0
                else:  # runs of U U Z Z A A ...
                    alloc = zero = 0
                    i = 0
                    while i < 32:
                        n = rng.randrange(1, 7)
                        st = rng.choice("AZU")
                        for j in range(i, min(32, i + n)):
                            if st == "A":
                                alloc |= 1 << j
                            elif st == "Z":
                                zero |= 1 << j
                        i += n
                submaps[g] = (alloc, zero)
            alloc, zero = submaps[g]
            codes = bytes(D if alloc >> i & 1 else (Z if zero >> i & 1 else T) for i in range(32))
            layer.units[g] = ("P", sub_sectors, codes)
        elif k == "u":
            if g not in submaps:
                submaps[g] = (0, rng.choice([0xFFFFFFFF, rng.getrandbits(32), 1 << rng.randrange(32), 0xFFFF0000]))
            _, zero = submaps[g]
            codes = bytes(Z if zero >> i & 1 else T for i in range(32))
            layer.units[g] = ("P", sub_sectors, codes)
    return View(kinds, layer, submaps)


def build(rng, *, cluster_bits: int, size: int, views: list[View], version: int = 3, extl2: bool = False,
          header_length: int = 112, extensions: list[bytes] | None = None, backing_name: bytes | None = None,
          external_data: bool = False, data_file_name: bytes | None = None, placement: str = "shuffle",
          far_base: int = 0, far_frac: float = 0.0, l1_extra: int = 0, drop_empty_l2: bool = True,
          snapshots_meta: list[dict] | None = None, copied_random: bool = True, level: int = 6,
          tuned_frac: float = 0.3, compat: int = 0, autoclear: int = 0, incompat_extra: int = 0,
          refcount_order: int = 4, crypt_method: int = 0, compression_type: int = 0, pack_compressed: bool = True,
          rand_info: bool = True, ext_end_marker: bool = True, snap_short_l1: bool = False, corrupt_deflate: bool = False, sync_flush_frac: float = 0.0):
    """-> (SparseFile image, SparseFile|None data_file, meta). views[0] is the active image, the rest snapshots."""
    cs = 1 << cluster_bits
    spc = cs // SECTOR
    l2e = 16 if extl2 else 8
    l2_entries = cs // l2e
    nclusters = -(-size // cs)
    nl2 = -(-nclusters // l2_entries) if nclusters else 0
    l1_size = nl2 + l1_extra
    csize_shift = 62 - (cluster_bits - 8)

    placer = Placer(cs, rng)  # cluster 0 is the header
    data_placer = Placer(0, rng) if external_data else placer
    # ---- collect items per view
    plans = []
    for vi, view in enumerate(views):
        used_l2 = sorted({g // l2_entries for g in view.kinds})
        l2s = list(range(nl2)) if not drop_empty_l2 else used_l2
        if not drop_empty_l2 or (rng.random() < 0.3 and nl2 <= 64):
            l2s = list(range(nl2))
        l1_bytes = max(8 * l1_size, 8)
        placer.add(("l1", vi), -(-l1_bytes // cs) * cs, cs)
        for t in l2s:
            placer.add(("l2", vi, t), cs, cs)
        # compressed clusters: deflate now, pack into groups
        comp = {}
        groups = []
        cur_group = []
        cur_len = 0
        for g in sorted(view.kinds):
            k = view.kinds[g]
            if k == "C":
                raw = _cluster_bytes(view.layer, g, spc, rng, cs, level, tuned_frac)
                unfinished = bool(sync_flush_frac and rng.random() < sync_flush_frac)
                blob = deflate_raw(raw, level, final=not unfinished)
                if corrupt_deflate:
                    # NOT a well-formed image: the first deflate block carries the reserved block type (for checks that are
                    # about what a reader does when decompression fails)
                    blob = bytes([blob[0] | 0x06]) + blob[1:]
                if len(blob) >= cs:
                    # incompressible: a real writer stores such a cluster uncompressed
                    view.kinds[g] = "N"
                    k = "N"
                else:
                    comp[g] = blob
                    gap = rng.choice([0, 0, 0, 1, 7, 100]) if pack_compressed else (-cur_len) % SECTOR
                    if unfinished:
                        # the sectors the entry names end exactly where this stream ends: there is no end mark a reader could stop
                        # at, what follows in the file is not part of the stream
                        gap = (-(cur_len + len(blob))) % SECTOR
                    cur_group.append((g, cur_len + gap))
                    cur_len += gap + len(blob)
                    if rng.random() < 0.3 or cur_len > 3 * cs:
                        groups.append((cur_group, cur_len))
                        cur_group, cur_len = [], 0
            if k in ("N", "z", "S"):
                data_placer.add(("d", vi, g), cs, cs)
        if cur_group:
            groups.append((cur_group, cur_len))
        for gi, (grp, ln) in enumerate(groups):
            placer.add(("cg", vi, gi), -(-(ln + 1) // cs) * cs, cs)
        plans.append({"l2s": l2s, "comp": comp, "groups": groups})
    snap_table = b""
    if len(views) > 1:
        need = 0
        for si in range(1, len(views)):
            sm = (snapshots_meta or [])[si - 1] if si - 1 < len(snapshots_meta or []) else {}
            need += 48 + sm.get("extra_size", 16) + len(sm.get("id", b"12345")) + len(sm.get("name", b"snapshot-name")) + 8
        placer.add(("snaptab",), -(-need // cs) * cs, cs)
    placer.add(("refcount",), cs, cs)
    lay = placer.layout(placement, gap_prob=0.15, far_base=far_base, far_frac=far_frac)
    dlay = data_placer.layout(placement, gap_prob=0.15, far_base=far_base, far_frac=far_frac) if external_data else lay

    img = SparseFile()
    data = SparseFile() if external_data else img
    stats = {"compressed": 0, "unaligned_coffset": 0, "max_host_off": 0, "subcluster_clusters": 0, "tuned": 0}
    # ---- write views
    l1_info = []
    for vi, view in enumerate(views):
        plan = plans[vi]
        coff = {}
        for gi, (grp, ln) in enumerate(plan["groups"]):
            base = lay[("cg", vi, gi)]
            for g, rel in grp:
                coff[g] = base + rel
                img.put(base + rel, plan["comp"][g])
        l1 = [0] * l1_size
        for t in plan["l2s"]:
            ents = []
            for e in range(l2_entries):
                g = t * l2_entries + e
                k = view.kinds.get(g, "U") if g < nclusters else "U"
                bitmap = 0
                if k == "=":
                    root = g - 1
                    while view.kinds.get(root) == "=":
                        root -= 1
                    entry = dlay[("d", vi, root)]  # refcount > 1: the COPIED flag is clear
                    bitmap = 0xFFFFFFFF
                    if e > 0:
                        ents[-(2 if extl2 else 1)] &= ~COPIED
                elif k == "N":
                    off = dlay[("d", vi, g)]
                    entry = off | COPIED if (not copied_random or rng.random() < 0.8 or (external_data and off == 0)) else off
                    if external_data and off == 0:
                        entry = COPIED
                    bitmap = 0xFFFFFFFF
                elif k == "z":
                    off = dlay[("d", vi, g)]
                    if extl2:
                        entry = off | COPIED
                        bitmap = 0xFFFFFFFF << 32
                    else:
                        entry = off | COPIED | 1
                elif k == "Z":
                    if extl2:
                        entry = 0
                        bitmap = 0xFFFFFFFF << 32
                    else:
                        entry = 1
                elif k == "C":
                    co = coff[g]
                    clen = len(plan["comp"][g])
                    nsec = ((co & 511) + clen + 511) // 512 - 1
                    entry = COMPRESSED | co | (nsec << csize_shift)
                    stats["compressed"] += 1
                    if co & 511:
                        stats["unaligned_coffset"] += 1
                elif k == "S":
                    off = dlay[("d", vi, g)]
                    alloc, zero = view.submaps[g]
                    entry = off | COPIED
                    bitmap = alloc | (zero << 32)
                    stats["subcluster_clusters"] += 1
                elif k == "u":
                    entry = 0
                    bitmap = view.submaps[g][1] << 32
                else:
                    entry = 0
                ents.append(entry)
                if extl2:
                    ents.append(bitmap)
            off = lay[("l2", vi, t)]
            img.put(off, struct.pack(f">{len(ents)}Q", *ents))
            l1[t] = off | (COPIED if rng.random() < 0.8 else 0)
            stats["max_host_off"] = max(stats["max_host_off"], off)
        l1_off = lay[("l1", vi)]
        img.put(l1_off, struct.pack(f">{max(l1_size, 1)}Q", *(l1 or [0])))
        l1_here = l1_size
        if snap_short_l1 and vi > 0:
            # a snapshot taken when the disk was smaller: its L1 table has fewer entries than the active one; whatever lies
            # beyond it reads as zeros in the snapshot's view
            used_l1 = max((t_ for t_, e_ in enumerate(l1) if e_), default=-1) + 1
            l1_here = max(1, rng.randrange(used_l1, l1_size + 1)) if used_l1 < l1_size else l1_size
        l1_info.append((l1_off, l1_here))
        for g, k in view.kinds.items():
            if k in ("N", "z", "S"):
                off = dlay[("d", vi, g)]
                data.put(off, PatternGen(view.layer, g * spc, spc))
                stats["max_host_off"] = max(stats["max_host_off"], off)
    # ---- snapshot table
    snapshots_meta = snapshots_meta or []
    snaps_off = 0
    if len(views) > 1:
        snaps_off = lay[("snaptab",)]
        for si in range(1, len(views)):
            sm = snapshots_meta[si - 1] if si - 1 < len(snapshots_meta) else {}
            snap_table += snapshot_entry(l1_info[si][0], l1_info[si][1], sm.get("id", str(si).encode()), sm.get("name", f"snap{si}".encode()),
                                         extra_size=sm.get("extra_size", 16), disk_size=sm.get("disk_size", size),
                                         vm_state_large=sm.get("vm_state_large", 0), icount=sm.get("icount", 0),
                                         date_sec=sm.get("date_sec", 0), date_nsec=sm.get("date_nsec", 0),
                                         vm_clock=sm.get("vm_clock", 0), vm_state_size=sm.get("vm_state_size", 0),
                                         extra_tail=sm.get("extra_tail", b""))
        img.put(snaps_off, snap_table)
    img.put(lay[("refcount",)], b"\0" * 8)
    # ---- header
    incompat = (1 << 4 if extl2 else 0) | (1 << 2 if external_data else 0) | incompat_extra
    if compression_type:
        incompat |= 1 << 3
    ext = b"".join(extensions or [])
    if external_data and data_file_name is not None:
        ext += extension(EXT_DATA_FILE, data_file_name)
    hl = 72 if version == 2 else header_length
    backing_off = 0
    if ext_end_marker or not backing_name or not ext:
        ext += struct.pack(">II", 0, 0)
        if backing_name:
            backing_off = hl + len(ext) + rng.choice([0, 0, 8, 16])
    else:
        # no end-of-extensions marker: the extension area ends where the backing file name begins, directly behind the last extension
        backing_off = hl + len(ext)
    hdr = struct.pack(">IIQIIQIIQQIIQ", MAGIC, version, backing_off, len(backing_name or b""), cluster_bits, size, crypt_method,
                      l1_info[0][1], l1_info[0][0], lay[("refcount",)], 1, len(views) - 1, snaps_off)
    if version >= 3 and rand_info and not compat and not autoclear and rng.random() < 0.5:
        # feature bits a reader may ignore: compatible (lazy refcounts, unknown ones) and autoclear; and the dirty bit
        # (refcounts possibly stale - irrelevant for reading)
        compat = rng.choice([1, 1, rng.getrandbits(8), rng.getrandbits(64)])
        autoclear = rng.choice([0, 1, 2, 3, rng.getrandbits(64)])
        if rng.random() < 0.3:
            incompat |= 1
    if version >= 3:
        hdr += struct.pack(">QQQII", incompat, compat, autoclear, refcount_order, hl)
        if hl > 104:
            hdr += struct.pack(">B", compression_type) + b"\0" * 7
        if hl > 112:
            hdr += bytes(rng.randrange(256) for _ in range(hl - 112))  # unknown trailing header fields
        hdr = hdr[:hl]
    first = hdr + ext
    if backing_name:
        first = first.ljust(backing_off, b"\0") + backing_name
    assert len(first) <= cs, f"header area {len(first)} does not fit cluster {cs}"
    img.put(0, first)
    img.size = -(-max(img.end, cs) // cs) * cs
    if external_data:
        data.size = -(-max(data.end, size) // cs) * cs
    l1_bytes = 8 * l1_size
    meta = {
        "size": size, "cluster_bits": cluster_bits, "version": version, "extl2": extl2, "l1_size": l1_size,
        "l1_offset": l1_info[0][0], "snapshots_offset": snaps_off, "nb_snapshots": len(views) - 1, "header_length": hl,
        "incompat": incompat if version >= 3 else 0, "backing_offset": backing_off,
        "metadata_bytes": cs + l1_bytes + sum(len(p["l2s"]) for p in plans[:1]) * cs,
        "l1_infos": l1_info, **stats,
    }
    return img, (data if external_data else None), meta


def _cluster_bytes(layer: Layer, g: int, spc: int, rng, cs: int, level: int, tuned_frac: float) -> bytes:
    """Content of a to-be-compressed cluster; a fraction is tuned so the deflate stream is almost cluster-sized."""
    if rng.random() < tuned_frac:
        if cs >= 2048:
            target = cs - rng.randrange(1, 640)
        else:
            target = cs - rng.randrange(1, cs // 2)
        seedb = hashlib.shake_128(struct.pack("<QQ", layer.tag, g)).digest(cs)
        r = max(target - 140, 0)
        best = None
        step = 1 if cs <= 65536 else 16
        while r <= cs:
            body = seedb[:r].ljust(cs, b"\0")
            n = len(deflate_raw(body, level))
            if n < cs and (best is None or abs(n - target) < abs(best[0] - target)):
                best = (n, body)
            if n >= target:
                break
            r += step
        if best is not None:
            body = best[1]
            for k in range(spc):
                layer.override[g * spc + k] = body[k * SECTOR : (k + 1) * SECTOR]
    return layer.phys_bytes(g * spc, spc)
