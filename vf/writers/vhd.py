"""Independent VHD (fixed / dynamic) writer."""
from __future__ import annotations

import struct

from vf.core import D, SECTOR, T, Z, Layer, PatternGen, SparseFile


def footer(size: int, data_offset: int, disk_type: int, uid: bytes, legacy: bool = False, orig_size=None,
           timestamp: int = 0, creator_app: bytes = b"vf  ", creator_os: bytes = b"Wi2k", geometry: int = 0,
           temporary: bool = False, info_rng=None, force_creator: bytes | None = None) -> bytes:
    # features: bit 1 is reserved and always set by writers of the 512-byte footer, bit 0 marks a temporary disk
    features = 0 if legacy else (3 if temporary else 2)
    saved_state = 0
    if info_rng is not None and info_rng.random() < 0.6:
        # informational fields: any value is well-formed
        timestamp = info_rng.getrandbits(32)
        creator_app = info_rng.choice([b"vpc ", b"win ", b"qem2", b"vbox", b"d2v ", b"\0\0\0\0"])
        creator_os = info_rng.choice([b"Wi2k", b"Mac ", b"\0\0\0\0"])
        geometry = info_rng.getrandbits(32)
        saved_state = info_rng.choice([0, 1])
    if force_creator is not None:
        # e.g. "vpc " with the largest geometry Virtual PC can express (65535 x 16 x 255 sectors, a little under 127.5 GiB):
        # creator and geometry are informational, the current-size field is the size
        creator_app = force_creator
        geometry = (65535 << 16) | (16 << 8) | 255
    f = struct.pack(">8sIIQI4sI4sQQII", b"conectix", features, 0x00010000, data_offset, timestamp, creator_app,
                    0x00050000, creator_os, size if orig_size is None else orig_size, size, geometry, disk_type)
    body = f + struct.pack(">I", 0) + uid + bytes([saved_state]) + b"\0" * 427
    assert len(body) == 512
    chk = (~sum(body)) & 0xFFFFFFFF
    body = f + struct.pack(">I", chk) + uid + bytes([saved_state]) + b"\0" * 427
    return body[:511] if legacy else body


def build_fixed(rng, *, nsectors: int, legacy: bool = False, tag: int = 1, kind: int = 0, nested: str | None = None, orig_size=None,
                uid: bytes | None = None, creator: bytes | None = None):
    """nested: guest content that itself starts like a VHD ('dynamic' footer copy / 'fixed' footer) at LBA 0."""
    size = nsectors * SECTOR
    layer = Layer(size, max(nsectors, 1), tag, kind, default=D)
    if nested and nsectors:
        inner_uid = bytes(rng.randrange(256) for _ in range(16))
        if nested == "dynamic":
            layer.override[0] = footer(size // 2, 512, 3, inner_uid)
            if nsectors > 3:
                dh = struct.pack(">8sQQIIII", b"cxsparse", 0xFFFFFFFFFFFFFFFF, 1536, 0x00010000, 4, 2 << 20, 0).ljust(1024, b"\0")
                layer.override[1], layer.override[2] = dh[:512], dh[512:]
        else:
            layer.override[0] = footer(size // 2, 0xFFFFFFFFFFFFFFFF, 2, inner_uid)
    uid = uid or bytes(rng.randrange(256) for _ in range(16))
    sf = SparseFile()
    if nsectors:
        sf.put(0, PatternGen(layer, 0, nsectors))
    sf.put(size, footer(size, 0xFFFFFFFFFFFFFFFF, 2, uid, legacy=legacy, orig_size=orig_size, temporary=rng.random() < 0.3, info_rng=rng, force_creator=creator))
    meta = {"size": size, "uid": uid.hex(), "legacy": legacy, "metadata_bytes": 512}
    return sf, layer, meta


def build_dynamic(rng, *, block_size: int, nblocks: int, tail_cut_sectors: int = 0, states=None,
                  placement: str = "shuffle", tag: int = 1, kind: int = 0, bitmaps: str = "ones",
                  header_off: int = 512, table_gap: int = 0, extra_entries: int = 0, far_sector: int = 0, orig_size=None, uid: bytes | None = None,
                  table_place: str = "front", stale_copy: bool = False, creator: bytes | None = None, odd_bytes: int = 0):
    """states[i] in {'A','U'}; bitmaps in ones|random|zeros (data under 0 bits is stored as zeros).
    table_place: front (header, BAT, blocks), behind (header, blocks, BAT) or middle (BAT between the blocks): all
    offsets in the format are absolute, the table may sit anywhere."""
    spb = block_size // SECTOR
    size = nblocks * block_size - tail_cut_sectors * SECTOR
    layer = Layer(size, spb, tag, kind, default=T)
    layer.zero_phys = True
    if states is None:
        states = [rng.choice("AAU") for _ in range(nblocks)]
    bm_bytes = (spb + 7) // 8
    bm_sectors = -(-bm_bytes // SECTOR)
    max_entries = nblocks + extra_entries
    table_off = header_off + 1024 + table_gap * SECTOR
    bat_len = 4 * max_entries
    data_start = -(-(table_off + bat_len) // SECTOR)  # in sectors
    if table_place != "front":
        data_start = -(-(header_off + 1024) // SECTOR) + table_gap
    alloc = [i for i, s in enumerate(states) if s == "A"]
    order = list(alloc)
    if placement == "shuffle":
        rng.shuffle(order)
    elif placement == "rev":
        order.reverse()
    elif placement == "runs":
        groups, cur = [], []
        for i in order:
            cur.append(i)
            if rng.random() < 0.4:
                groups.append(cur)
                cur = []
        if cur:
            groups.append(cur)
        rng.shuffle(groups)
        order = [i for g in groups for i in g]
    pos = {}
    cursor = data_start
    far_cursor = far_sector
    table_slot = len(order) // 2 if table_place == "middle" else (len(order) if table_place == "behind" else -1)
    for n_, i in enumerate(order):
        if n_ == table_slot:
            table_off = cursor * SECTOR
            cursor += -(-bat_len // SECTOR) + table_gap
        if far_sector and rng.random() < 0.5:
            pos[i] = far_cursor
            far_cursor += bm_sectors + spb + rng.randrange(0, 3)
            continue
        if placement != "seq" and rng.random() < 0.2:
            cursor += rng.randrange(1, 5)
        pos[i] = cursor
        cursor += bm_sectors + spb
    if table_slot == len(order):
        table_off = cursor * SECTOR
        cursor += -(-bat_len // SECTOR)
    if far_sector and pos:
        # make sure the very last usable sector offset is exercised too
        top = 0xFFFFFFFE - (bm_sectors + spb)
        if far_cursor < top:
            j = max(pos, key=lambda k: pos[k])
            pos[j] = top
    uid = uid or bytes(rng.randrange(256) for _ in range(16))
    sf = SparseFile()
    if odd_bytes:
        # a current size that ends inside a sector (the field counts bytes): the disk ends there
        size -= odd_bytes
    ft = footer(size, header_off, 3, uid, orig_size=orig_size, temporary=rng.random() < 0.3, info_rng=rng, force_creator=creator)
    if stale_copy:
        # the copy at the start of the file was not rewritten when the disk was last resized / re-identified: only the
        # footer at the end of the file is authoritative (both carry valid checksums)
        old_uid = bytes(rng.randrange(256) for _ in range(16))
        sf.put(0, footer(max(SECTOR, size // 2 - size // 2 % SECTOR), header_off, 3, old_uid, info_rng=rng))
    else:
        sf.put(0, ft)
    dh = struct.pack(">8sQQIIII", b"cxsparse", 0xFFFFFFFFFFFFFFFF, table_off, 0x00010000, max_entries, block_size, 0)
    dh += b"\0" * 16 + struct.pack(">II", 0, 0) + b"\0" * 512 + b"\0" * (8 * 24) + b"\0" * 256
    assert len(dh) == 1024
    # dynamic header checksum (one's complement of the byte sum with the field zeroed), as real writers store it
    dh = dh[:36] + struct.pack(">I", (~sum(dh)) & 0xFFFFFFFF) + dh[40:]
    sf.put(header_off, dh)
    bat = []
    for i, s in enumerate(states):
        if s == "A":
            bat.append(pos[i])
            if bitmaps == "ones":
                layer.units[i] = D
                bm = b"\xff" * bm_bytes
            else:
                bits = [1 if (bitmaps == "random" and rng.random() < 0.6) else 0 for _ in range(spb)]
                layer.units[i] = ("P", 1, bytes(D if b else Z for b in bits))
                bm = bytearray(bm_bytes)
                for k, b in enumerate(bits):
                    if b:
                        bm[k // 8] |= 0x80 >> (k % 8)
                bm = bytes(bm)
            sf.put(pos[i] * SECTOR, bm.ljust(bm_sectors * SECTOR, b"\0"))
            sf.put((pos[i] + bm_sectors) * SECTOR, PatternGen(layer, i * spb, spb))
        else:
            bat.append(0xFFFFFFFF)
            layer.units[i] = T
    bat += [0xFFFFFFFF] * extra_entries
    sf.put(table_off, struct.pack(f">{max_entries}I", *bat))
    end = -(-sf.end // SECTOR) * SECTOR
    sf.put(end, ft)
    meta = {"size": size, "block_size": block_size, "bat": bat[:nblocks], "states": "".join(states), "uid": uid.hex(),
            "bitmap_sectors": bm_sectors, "table_off": table_off, "header_off": header_off,
            "metadata_bytes": 512 + 1024 + bat_len + 512, "max_entries": max_entries}
    return sf, layer, meta
