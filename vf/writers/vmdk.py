"""Independent VMDK writers: hosted sparse (KDMV, incl. stream-optimized), ESX COWD, SE-sparse, descriptors."""
from __future__ import annotations

import hashlib
import struct
import zlib

from vf.core import D, SECTOR, T, Z, Layer, PatternGen, SparseFile

GD_AT_END = 0xFFFFFFFFFFFFFFFF


def descriptor_text(extents: list[str], *, cid: str = "fffffffe", parent_cid: str = "ffffffff", create_type: str = "monolithicSparse",
                    parent_hint: str | None = None, ddb: dict | None = None, extra: dict | None = None, crlf: bool = False,
                    comments: bool = True, spacing: str = "") -> str:
    lines = ["# Disk DescriptorFile", "version=1", f"CID{spacing}={spacing}{cid}", f"parentCID{spacing}={spacing}{parent_cid}",
             f'createType{spacing}={spacing}"{create_type}"']
    if parent_hint is not None:
        lines.append(f'parentFileNameHint{spacing}={spacing}"{parent_hint}"')
    for k, v in (extra or {}).items():
        lines.append(f'{k}{spacing}={spacing}"{v}"')
    lines.append("")
    if comments:
        lines.append("# Extent description")
    lines.extend(extents)
    lines.append("")
    if comments:
        lines += ["# The Disk Data Base", "#DDB", ""]
    for k, v in ({"ddb.virtualHWVersion": "4", "ddb.adapterType": "lsilogic"} if ddb is None else ddb).items():
        lines.append(f'{k} = "{v}"')
    return ("\r\n" if crlf else "\n").join(lines) + ("\r\n" if crlf else "\n")


def kdmv_header(*, version: int, flags: int, capacity: int, grain: int, desc_off: int, desc_size: int, ngte: int,
                rgd_off: int, gd_off: int, overhead: int, compress: int = 0, dirty: int = 0) -> bytes:
    h = b"KDMV" + struct.pack("<II", version, flags)
    h += struct.pack("<QQQQ", capacity, grain, desc_off, desc_size)
    h += struct.pack("<I", ngte)
    h += struct.pack("<QQQ", rgd_off, gd_off, overhead)
    h += struct.pack("<B", dirty) + b"\n \r\n" + struct.pack("<H", compress)
    return h.ljust(512, b"\0")


def _order(rng, items, placement):
    order = list(items)
    if placement == "shuffle":
        rng.shuffle(order)
    elif placement == "rev":
        order.reverse()
    elif placement in ("runs", "revruns"):
        groups, cur = [], []
        for i in order:
            cur.append(i)
            if rng.random() < 0.35:
                groups.append(cur if placement == "runs" else list(reversed(cur)))
                cur = []
        if cur:
            groups.append(cur if placement == "runs" else list(reversed(cur)))
        rng.shuffle(groups)
        order = [i for g in groups for i in g]
    return order


def _states(rng, n, alphabet):
    return [rng.choice(alphabet) for _ in range(n)]


def _as_map(states) -> dict:
    """list of per-grain states or {grain: state} -> {grain: state} holding the non-'U' grains only."""
    if isinstance(states, dict):
        return {int(g): s for g, s in states.items() if s != "U"}
    return {g: s for g, s in enumerate(states) if s != "U"}


def _tables_with_entries(st: dict, ngte: int) -> set:
    return {g // ngte for g in st}


def _states_str(st: dict, ngrains: int):
    return "".join(st.get(g, "U") for g in range(ngrains)) if ngrains < 4000 else None


def build_hosted(rng, *, capacity: int, grain: int, ngte: int = 512, states=None, placement: str = "shuffle",
                 tag: int = 1, kind: int = 0, version: int = 1, zero_gte: bool = True, redundant: bool = False,
                 descriptor: str | None = None, align_grains: bool = True, tables_after_data: bool = False,
                 empty_tables: bool = True, far_sector: int = 0, desc_exact: bool = False, gd_in_footer: bool = False,
                 gd_last: bool = False, redundant_override=None, gd_at: int = 0):
    """Plain (non-compressed) hosted sparse extent. states per grain: A / U / Z.
    gd_at: absolute sector of the grain directory (the caller knows it to be free), e.g. one whose low 32 bits are all ones."""
    if redundant_override is not None:
        redundant = redundant_override
    ngrains = -(-capacity // grain)
    if states is None:
        states = _states(rng, ngrains, "AAUZ" if zero_gte else "AAU")
    st = _as_map(states)
    used = _tables_with_entries(st, ngte)
    layer = Layer(capacity * SECTOR, grain, tag, kind, default=T)
    coverage = ngte * grain
    ngd = -(-capacity // coverage)
    gt_sectors = -(-(ngte * 4) // SECTOR)
    gd_sectors = -(-(ngd * 4) // SECTOR)
    desc_bytes = descriptor.encode() if descriptor is not None else b""
    desc_size = -(-len(desc_bytes) // SECTOR) if desc_bytes else 0
    if desc_bytes and not desc_exact:
        desc_size += rng.randrange(0, 3)
    desc_off = 1 if desc_bytes else 0
    cur = 1 + desc_size
    # which grain tables exist: a table whose grains are all unallocated may be absent (GD entry 0)
    gts = []
    for t in range(ngd):
        if t not in used and (ngd > 64 or (empty_tables and rng.random() < 0.6)):
            gts.append(None)
        else:
            gts.append(True)
    flags = 1 | (2 if redundant else 0) | (4 if zero_gte else 0)
    sf = SparseFile()
    layout = {}

    def place_tables(start):
        c = start
        if redundant:
            layout["rgd"] = c
            c += gd_sectors
            layout["rgt"] = {}
            for t in range(ngd):
                if gts[t]:
                    layout["rgt"][t] = c
                    c += gt_sectors
        if gd_at:
            layout["gd"] = gd_at
        elif not gd_last:
            layout["gd"] = c
            c += gd_sectors
        layout["gt"] = {}
        torder = _order(rng, [t for t in range(ngd) if gts[t]], "shuffle" if placement != "seq" else "seq")
        for t in torder:
            layout["gt"][t] = c
            c += gt_sectors
        if gd_last and not gd_at:
            # the directory closes the file
            layout["gd"] = c
            c += gd_sectors
        return c

    if not tables_after_data:
        cur = place_tables(cur)
    data_start = max(cur, 2)  # grain table entries 0 and 1 are reserved (unallocated / zero grain)
    if align_grains:
        data_start = max(-(-data_start // grain) * grain, 2 if grain == 1 else grain)
    alloc = sorted(g for g, s_ in st.items() if s_ == "A")
    pos = {}
    c = data_start
    farc = far_sector
    for g in _order(rng, alloc, placement):
        if far_sector and rng.random() < 0.5 and farc + 3 * grain <= 0xFFFFFFFF:
            pos[g] = farc
            farc += grain * rng.randrange(1, 3)
            continue
        if placement not in ("seq", "runs", "revruns") and rng.random() < 0.15:
            c += grain * rng.randrange(1, 3) if align_grains else rng.randrange(1, 2 * grain)
        pos[g] = c
        c += grain
    if tables_after_data:
        c = place_tables(c)
    overhead = data_start
    gd = []
    for t in range(ngd):
        if not gts[t]:
            gd.append(0)
            continue
        gt = []
        for e in range(ngte):
            g = t * ngte + e
            sg = st.get(g, "U") if g < ngrains else "U"
            if sg == "A":
                gt.append(pos[g])
            elif sg == "Z":
                gt.append(1)
            else:
                gt.append(0)
        blob = struct.pack(f"<{ngte}I", *gt)
        sf.put(layout["gt"][t] * SECTOR, blob)
        if redundant:
            sf.put(layout["rgt"][t] * SECTOR, blob)
        gd.append(layout["gt"][t])
    sf.put(layout["gd"] * SECTOR, struct.pack(f"<{ngd}I", *gd))
    if redundant:
        sf.put(layout["rgd"] * SECTOR, struct.pack(f"<{ngd}I", *[layout["rgt"].get(t, 0) for t in range(ngd)]))
    hdr_kw = dict(version=version, flags=flags, capacity=capacity, grain=grain, desc_off=desc_off, desc_size=desc_size,
                  ngte=ngte, rgd_off=layout.get("rgd", 0), overhead=overhead)
    sf.put(0, kdmv_header(gd_off=GD_AT_END if gd_in_footer else layout["gd"], **hdr_kw))
    if desc_bytes:
        sf.put(SECTOR, desc_bytes)
    for g, sg in st.items():
        layer.units[g] = D if sg == "A" else (Z if sg == "Z" else T)
    for g, p in pos.items():
        sf.put(p * SECTOR, PatternGen(layer, g * grain, grain))
    sf.size = max(sf.end, -(-sf.end // SECTOR) * SECTOR)
    if gd_in_footer:
        # the header says "grain directory at the end": the real offset is in the footer copy, 1024 bytes before the end
        # of the file (footer sector + end-of-stream sector), exactly as in stream-optimized extents but without compression
        end = sf.size
        sf.put(end, kdmv_header(gd_off=layout["gd"], **hdr_kw))
        sf.put(end + SECTOR, b"\0" * SECTOR)
        sf.size = end + 2 * SECTOR
    meta = {"kind": "hosted", "capacity": capacity, "grain": grain, "ngte": ngte, "states": _states_str(st, ngrains),
            "pos": pos, "flags": flags, "metadata_bytes": SECTOR * (1 + desc_size + (2 if redundant else 1) * (gd_sectors + gt_sectors * sum(1 for x in gts if x))),
            "ngd": ngd, "gd_sector": layout["gd"], "size": capacity * SECTOR}
    return sf, layer, meta


def build_stream_optimized(rng, *, capacity: int, grain: int, ngte: int = 512, states=None, tag: int = 1,
                           descriptor: str | None = None, level: int = 6, version: int = 3, incompressible_frac: float = 0.15,
                           tuned_frac: float = 0.35, slots: bool = False, embedded_lba: bool = True):
    """Stream-optimized hosted sparse extent: compressed grains with markers, GD located via the footer.

    embedded_lba=False: the other compressed layout the format defines - no markers, each grain stored as
    {uint32 size, deflate stream}, tables and directory as in a plain hosted extent (directory offset in the header)."""
    ngrains = -(-capacity // grain)
    if states is None:
        states = _states(rng, ngrains, "AAU")
    st = _as_map(states)
    layer = Layer(capacity * SECTOR, grain, tag, 1, default=T)
    rand_layer = Layer(capacity * SECTOR, grain, tag, 0, default=T)  # incompressible variant for some grains
    coverage = ngte * grain
    ngd = -(-capacity // coverage)
    gt_sectors = -(-(ngte * 4) // SECTOR)
    gd_sectors = -(-(ngd * 4) // SECTOR)
    desc_bytes = (descriptor or "").encode()
    desc_size = -(-len(desc_bytes) // SECTOR) if desc_bytes else 0
    flags = 0x30001 if embedded_lba else 0x10001
    sf = SparseFile()
    cur = 1 + desc_size
    if desc_bytes:
        sf.put(SECTOR, desc_bytes)
    cur = max(cur, 2)  # sectors 0 and 1 can never hold a grain (GTE values 0 and 1 are reserved)
    if rng.random() < 0.5:
        cur = -(-cur // 128) * 128  # real writers start the stream at sector 128
    gd = []
    stats = {"comp_sizes": [], "multi_sector": 0}
    hard = set()
    for t in range(ngd):
        gt = [0] * ngte
        any_alloc = False
        for e in range(ngte):
            g = t * ngte + e
            if g >= ngrains or st.get(g) != "A":
                continue
            any_alloc = True
            src = layer
            roll = rng.random()
            if roll < incompressible_frac:
                src = rand_layer
                hard.add(g)
            src.units[g] = D
            if incompressible_frac <= roll < incompressible_frac + tuned_frac:
                # tune the content so that marker (12 bytes) + deflate stream ends right around a sector boundary
                target = SECTOR * rng.randrange(1, min(4, grain) + 1) + rng.randrange(-16, 4)
                gbytes = grain * SECTOR
                best = None
                r = max(target - 110, 0)
                seedb = hashlib.shake_128(struct.pack("<QQ", tag, g)).digest(min(gbytes, target + 64))
                while r <= min(len(seedb), gbytes):
                    body = seedb[:r].ljust(gbytes, b"\0")
                    n = len(zlib.compress(body, level))
                    if best is None or abs(n - target) < abs(best[0] - target):
                        best = (n, body)
                    if n >= target:
                        break
                    r += 1
                body = best[1]
                for k_ in range(grain):
                    layer.override[g * grain + k_] = body[k_ * SECTOR : (k_ + 1) * SECTOR]
                stats["tuned"] = stats.get("tuned", 0) + 1
            raw = src.phys_bytes(g * grain, grain)
            comp = zlib.compress(raw, level)
            rec = (struct.pack("<QI", g * grain, len(comp)) if embedded_lba else struct.pack("<I", len(comp))) + comp
            rec = rec.ljust(-(-len(rec) // SECTOR) * SECTOR, b"\0")
            sf.put(cur * SECTOR, rec)
            gt[e] = cur
            stats["comp_sizes"].append(len(comp))
            if len(rec) > SECTOR:
                stats["multi_sector"] += 1
            # slots: every record occupies at least a grain-sized slot (padding between records is legal), so
            # consecutive grains sit exactly one grain apart in the file like in an uncompressed extent
            cur += max(len(rec) // SECTOR, grain if slots else 0)
        if any_alloc or rng.random() < 0.3:
            # grain table marker + table
            if embedded_lba:
                sf.put(cur * SECTOR, struct.pack("<QII", gt_sectors, 0, 1).ljust(SECTOR, b"\0"))
                cur += 1
            sf.put(cur * SECTOR, struct.pack(f"<{ngte}I", *gt))
            gd.append(cur)
            cur += gt_sectors
        else:
            gd.append(0)
    if embedded_lba:
        sf.put(cur * SECTOR, struct.pack("<QII", gd_sectors, 0, 2).ljust(SECTOR, b"\0"))
        cur += 1
    gd_sector = cur
    sf.put(cur * SECTOR, struct.pack(f"<{ngd}I", *gd))
    cur += gd_sectors
    common = dict(version=version, flags=flags, capacity=capacity, grain=grain, desc_off=1 if desc_bytes else 0,
                  desc_size=desc_size, ngte=ngte, rgd_off=0, overhead=128, compress=1)
    if embedded_lba:
        sf.put(cur * SECTOR, struct.pack("<QII", 1, 0, 3).ljust(SECTOR, b"\0"))
        cur += 1
        sf.put(cur * SECTOR, kdmv_header(gd_off=gd_sector, **common))
        cur += 1
        sf.put(cur * SECTOR, b"\0" * SECTOR)  # end-of-stream marker
        cur += 1
        sf.put(0, kdmv_header(gd_off=GD_AT_END, **common))
    else:
        sf.put(0, kdmv_header(gd_off=gd_sector, **common))
    sf.size = cur * SECTOR

    class _Mix:
        """Layer view: each allocated grain reads from the layer it was compressed from."""

        size = capacity * SECTOR

        def read_sector(self_inner, s):
            g = s // grain
            if g < ngrains and st.get(g) == "A":
                return (rand_layer if g in hard else layer).read_sector(s)
            return None

    meta = {"kind": "stream", "capacity": capacity, "grain": grain, "ngte": ngte, "states": _states_str(st, ngrains), "flags": flags,
            "metadata_bytes": SECTOR * (2 + desc_size + gd_sectors + (gt_sectors + 1) * sum(1 for x in gd if x) + 3),
            "comp_min": min(stats["comp_sizes"], default=0), "comp_max": max(stats["comp_sizes"], default=0),
            "multi_sector_grains": stats["multi_sector"], "incompressible_grains": len(hard), "tuned_grains": stats.get("tuned", 0),
            "end_residues": sorted({(12 + n) % SECTOR for n in stats["comp_sizes"] if (12 + n) % SECTOR < 12 or (12 + n) % SECTOR > 496}), "size": capacity * SECTOR}
    return sf, _Mix(), meta


def build_cowd(rng, *, capacity: int, grain: int, states=None, placement: str = "shuffle", tag: int = 1, kind: int = 0,
               empty_tables: bool = True, far_sector: int = 0):
    """ESX COWD sparse extent (4096-entry grain tables, 32-bit fields, 4-sector header)."""
    ngte = 4096
    ngrains = -(-capacity // grain)
    if states is None:
        states = _states(rng, ngrains, "AAU")
    st = _as_map(states)
    used = _tables_with_entries(st, ngte)
    layer = Layer(capacity * SECTOR, grain, tag, kind, default=T)
    ngd = -(-capacity // (ngte * grain))
    gd_sectors = -(-(ngd * 4) // SECTOR)
    gt_sectors = ngte * 4 // SECTOR
    gd_sector = 4
    cur = gd_sector + gd_sectors
    gts = {}
    order = []
    for t in range(ngd):
        if t not in used and (ngd > 64 or (empty_tables and rng.random() < 0.6)):
            continue
        order.append(t)
    for t in _order(rng, order, "shuffle" if placement != "seq" else "seq"):
        gts[t] = cur
        cur += gt_sectors
    alloc = sorted(g for g, s_ in st.items() if s_ == "A")
    pos = {}
    farc = far_sector
    for g in _order(rng, alloc, placement):
        if far_sector and rng.random() < 0.5 and farc + 3 * grain <= 0xFFFFFFFF:
            pos[g] = farc
            farc += grain * rng.randrange(1, 3)
            continue
        if placement not in ("seq", "runs", "revruns") and rng.random() < 0.15:
            cur += rng.randrange(1, 2 * grain)
        pos[g] = cur
        cur += grain
    sf = SparseFile()
    hdr = b"COWD" + struct.pack("<IIIIIII", 1, 3, capacity, grain, gd_sector, ngd, cur)
    sf.put(0, hdr.ljust(4 * SECTOR, b"\0"))
    gd = []
    for t in range(ngd):
        if t not in gts:
            gd.append(0)
            continue
        gt = [pos.get(t * ngte + e, 0) for e in range(ngte)]
        sf.put(gts[t] * SECTOR, struct.pack(f"<{ngte}I", *gt))
        gd.append(gts[t])
    sf.put(gd_sector * SECTOR, struct.pack(f"<{ngd}I", *gd))
    for g, sg in st.items():
        layer.units[g] = D if sg == "A" else T
    for g, p in pos.items():
        sf.put(p * SECTOR, PatternGen(layer, g * grain, grain))
    sf.size = -(-sf.end // SECTOR) * SECTOR
    meta = {"kind": "cowd", "capacity": capacity, "grain": grain, "ngte": ngte, "states": _states_str(st, ngrains),
            "pos": pos, "metadata_bytes": SECTOR * (4 + gd_sectors + gt_sectors * len(gts)), "ngd": ngd, "size": capacity * SECTOR}
    return sf, layer, meta


SE_MAGIC = 0xCAFEBABE


def build_sesparse(rng, *, capacity: int, grain: int = 8, gt_sectors: int = 64, states=None, placement: str = "shuffle",
                   tag: int = 1, kind: int = 0, big_index: bool = False, empty_tables: bool = True, huge_index: bool = False):
    """SE-sparse extent. huge_index (needs big_index): some grain indices beyond 2^32 (only for in-memory sparse backings). states per grain: A / U (unallocated) / F (fall-through, scsi-unmapped) / Z (zero)."""
    ngte = gt_sectors * SECTOR // 8
    ngrains = -(-capacity // grain)
    if states is None:
        states = _states(rng, ngrains, "AAUFZ")
    st = _as_map(states)
    used = _tables_with_entries(st, ngte)
    layer = Layer(capacity * SECTOR, grain, tag, kind, default=T)
    ngd = -(-ngrains // ngte)
    gd_sectors = max(1, -(-(ngd * 8) // SECTOR))
    if rng.random() < 0.5:
        gd_sectors += rng.randrange(0, 3)  # directory region larger than needed
    vol_off, vol_size = 1, 1
    jh_off, jh_size = 2, 2
    j_off, j_size = 4, 8
    gd_off = 16
    gt_off = gd_off + gd_sectors + rng.randrange(0, 4)
    # which tables exist
    exists = []
    for t in range(ngd):
        exists.append(not (t not in used and (ngd > 64 or (empty_tables and rng.random() < 0.6))))
    idx_order = _order(rng, [t for t in range(ngd) if exists[t]], "shuffle" if placement != "seq" else "seq")
    slot = {t: i for i, t in enumerate(idx_order)}
    if huge_index and idx_order and rng.random() < 0.6:
        # grain tables numbered 65536 and up (the directory entry holds a 32-bit table number): a pre-allocated table area
        # of a multi-terabyte disk looks like this
        bump = 0
        for t in idx_order:
            if rng.random() < 0.4:
                bump += rng.choice([65536, 65536, 131072, (1 << 20) + 3])
            slot[t] += bump
    gts_total = (max(slot.values()) + 1 if slot else 0) * gt_sectors
    grains_off = gt_off + gts_total + rng.randrange(0, 16)
    grains_off = -(-grains_off // grain) * grain
    alloc = sorted(g for g, s_ in st.items() if s_ == "A")
    base_idx = (4096 + rng.randrange(0, 5000)) if big_index else 0
    idx = {}
    nxt = base_idx
    for g in _order(rng, alloc, placement):
        if placement not in ("seq", "runs", "revruns") and rng.random() < 0.15:
            nxt += rng.randrange(1, 4)
        if big_index and rng.random() < 0.1:
            # exercise the high bits of the split index, up to grains tens of TiB into the file (index >= 2^32)
            jump = rng.randrange(1, 1 << 22) if not huge_index else rng.choice([rng.randrange(1, 1 << 22), rng.randrange(1, 1 << 22), max(1, (1 << 32) - nxt % (1 << 32) - rng.randrange(0, 3)), (1 << 33) + rng.randrange(1 << 20)])
            if nxt + jump < (1 << 35):
                nxt += jump
        idx[g] = nxt
        nxt += 1
    sf = SparseFile()
    gd = []
    for t in range(ngd):
        if not exists[t]:
            gd.append(0)
            continue
        gd.append(0x1000000000000000 | slot[t])
        ents = []
        for e in range(ngte):
            g = t * ngte + e
            sg = st.get(g, "U") if g < ngrains else "U"
            if sg == "A":
                i = idx[g]
                ents.append(0x3000000000000000 | ((i & 0xFFF) << 48) | (i >> 12))
            elif sg == "Z":
                ents.append(0x2000000000000000)
            elif sg == "F":
                ents.append(0x1000000000000000)
            else:
                ents.append(0)
        sf.put((gt_off + slot[t] * gt_sectors) * SECTOR, struct.pack(f"<{ngte}Q", *ents))
    sf.put(gd_off * SECTOR, struct.pack(f"<{ngd}Q", *gd))
    grains_size = (nxt + 1) * grain
    fields = [SE_MAGIC, 0x0000000200000001, capacity, grain, gt_sectors, 0, 0, 0, 0, 0, vol_off, vol_size, jh_off, jh_size,
              j_off, j_size, gd_off, gd_sectors, gt_off, max(gts_total, 1), 0, 0, 0, 0, grains_off, grains_size]
    sf.put(0, struct.pack("<26Q", *fields).ljust(SECTOR, b"\0"))
    sf.put(vol_off * SECTOR, struct.pack("<QQQQ", SE_MAGIC, 0, 0, 0).ljust(SECTOR, b"\0"))
    for g, sg in st.items():
        layer.units[g] = D if sg == "A" else (Z if sg == "Z" else T)
    for g, i in idx.items():
        sf.put((grains_off + i * grain) * SECTOR, PatternGen(layer, g * grain, grain))
    sf.size = max(sf.end, (grains_off + grains_size) * SECTOR)
    meta = {"kind": "sesparse", "capacity": capacity, "grain": grain, "ngte": ngte, "states": _states_str(st, ngrains),
            "idx": idx, "metadata_bytes": SECTOR * (16 + gd_sectors + gts_total), "ngd": ngd, "size": capacity * SECTOR,
            "max_index": max(idx.values(), default=0)}
    return sf, layer, meta


def build_flat(rng, *, nsectors: int, tag: int = 1, kind: int = 0):
    layer = Layer(nsectors * SECTOR, max(nsectors, 1), tag, kind, default=D)
    sf = SparseFile()
    sf.put(0, PatternGen(layer, 0, nsectors))
    sf.size = nsectors * SECTOR
    return sf, layer, {"kind": "flat", "capacity": nsectors, "size": nsectors * SECTOR, "metadata_bytes": 0}
