"""C17 - Hyper-V VMCX/VMRS: decoded tree equals the stored key/value tree."""
from __future__ import annotations

import math
import os
import struct

from vf.core import as_handle, rng_for
from vf.monitors import call
from vf.writers import hyperv as w
from vf.writers.hyperv import Val

ID = "C17"
LEVEL = "exploration"
STEP_BUDGET = 20_000_000
ANCHOR_FILES = ["dissect/hypervisor/descriptor/hyperv.py", "dissect/hypervisor/descriptor/c_hyperv.py"]
RULE = (
    "HyperVStorage files written by an independent writer (layout confirmed against both repository samples, which "
    "an independent mini-decoder also decodes) from random trees: depth 1..8, fan-out 0..40, UTF-8 keys up to 254 "
    "bytes, all seven value types (Int/UInt extremes, doubles incl. +-inf, NaN payloads and subnormals compared "
    "bitwise, strings/arrays of 0..0x2400 bytes both inline and in file objects, booleans with any non-zero word), "
    "entries distributed over 1..12 key tables in any order with parents in other tables and children before parents, "
    "free entries interleaved, tables tiled exactly, stale key tables sharing an index (lower sequence numbers, "
    "different content, any position in the object table, up to 3 generations), both orderings of header sequence "
    "numbers, additional acyclic object tables, unallocated object entries. Oracle: as_dict() equals the generated "
    "tree type-strictly (bitwise for doubles); navigation hf[k][k2].value, keys()/items()/values() of file and nodes, value_size, "
    "file-object pointers and their content through read() and open(); stale tables/headers never visible. "
    "Non-trivial: >= 2 value types and >= 2 entries; distinct = (tree shape, distribution)."
)
ASSUMPTIONS = [
    "root-level entries are nodes (as in real files; HyperVFile.as_dict only supports that)",
    "the harness's writer is a faithful reading of the format as decoded from VmDataStore.dll by the repository's authors",
    "held means: held on the executions listed, not verified for all trees",
]
MINIMA = {"quick": {"values_compared": 4000, "file_object_values": 100, "stale_tables": 60, "multi_table_files": 60},
          "thorough": {"values_compared": 500000}}
MECH = "hyperv.decode"
DATA = os.path.join(os.environ.get("VF_REPO", "/repo"), "tests", "data")
KEYCHARS = "abcdefghijklmnopqrstuvwxyzABCXYZ0123456789_-. äé日本語😀"


def plan(tier: str, seed: int) -> list[dict]:
    n = 220 if tier == "quick" else 40000
    return [{"i": i} for i in range(n)] + [{"i": -1, "fixture": "test.vmcx"}, {"i": -2, "fixture": "test.VMRS"}]


def gen_value(rng, counts) -> Val:
    k = rng.choice(["int", "uint", "double", "string", "array", "bool", "string", "int", "uint"])
    if k == "int":
        v = rng.choice([0, 1, -1, 2**63 - 1, -(2**63), rng.randrange(-(2**63), 2**63), rng.randrange(-1000, 1000)])
        return Val(k, v)
    if k == "uint":
        v = rng.choice([0, 1, 2**64 - 1, 2**63, 2**63 - 1, rng.getrandbits(64), rng.randrange(0, 1000)])
        return Val(k, v)
    if k == "double":
        v = rng.choice([struct.pack("<d", x) for x in (0.0, -0.0, 1.5, -2.25e300, float("inf"), float("-inf"), 5e-324, 2.2250738585072014e-308)]
                       + [struct.pack("<Q", 0x7FF8000000000001), struct.pack("<Q", 0xFFF0000000000001), struct.pack("<Q", rng.getrandbits(64))])
        return Val(k, v)
    if k == "bool":
        return Val(k, rng.choice([0, 1, 1, 2, 0x100, 0xFFFFFFFF, 0x80000000]))
    big = rng.random() < 0.2 and counts["files"] < 40
    if k == "string":
        n = rng.choice([0, 1, 5, 40, 0x3FF, 0x400]) if not big else rng.choice([0x400, 0x401, 0x800, 0x1200])
        s = "".join(rng.choice(KEYCHARS) for _ in range(n))
        if n and rng.random() < 0.12:
            # code units that generic "utf-16" decoders take for a byte order mark are ordinary characters here
            s = rng.choice(["\ufeff", "\ufffe", "\ufeff\ufeff"]) + s[1:]
        fo = big or (rng.random() < 0.05 and counts["files"] < 40)
        counts["files"] += int(fo)
        return Val(k, s, file_object=fo)
    n = rng.choice([0, 1, 7, 100, 0x7FF]) if not big else rng.choice([0x800, 0x801, 0x2000, 0x2400])
    fo = big or (rng.random() < 0.05 and counts["files"] < 40)
    counts["files"] += int(fo)
    return Val("array", bytes(rng.randrange(256) for _ in range(n)), file_object=fo)


def gen_key(rng, used) -> str:
    while True:
        n = rng.choice([1, 2, 8, 20, 60, 254]) if rng.random() < 0.1 else rng.randrange(1, 24)
        k = "".join(rng.choice(KEYCHARS) for _ in range(n))
        while len(k.encode("utf-8")) > 254:
            k = k[:-1]
        if k and k not in used and not k.startswith("#"):
            used.add(k)
            return k


def gen_tree(rng, depth, budget, counts):
    d = {}
    used = set()
    fan = rng.choice([0, 1, 2, 5, 12, 40]) if depth > 0 else rng.randrange(1, 4)
    for _ in range(fan):
        if budget[0] <= 0:
            break
        budget[0] -= 1
        k = gen_key(rng, used)
        if depth < 7 and rng.random() < (0.3 if depth else 1.0):
            d[k] = gen_tree(rng, depth + 1, budget, counts)
        else:
            d[k] = gen_value(rng, counts)
    return d


def expected(tree):
    out = {}
    for k, v in tree.items():
        if isinstance(v, dict):
            out[k] = expected(v)
        elif v.kind == "double":
            out[k] = ("double", v.value if isinstance(v.value, bytes) else struct.pack("<d", v.value))
        elif v.kind == "bool":
            out[k] = ("bool", v.value != 0)
        elif v.kind in ("int", "uint"):
            out[k] = ("int", v.value)
        elif v.kind == "string":
            out[k] = ("str", v.value)
        else:
            out[k] = ("bytes", bytes(v.value))
    return out


def normalise(got):
    """as_dict() output -> same shape as expected(): type-strict, doubles bitwise."""
    out = {}
    for k, v in got.items():
        if isinstance(v, dict):
            out[k] = normalise(v)
        elif isinstance(v, bool):
            out[k] = ("bool", v)
        elif isinstance(v, int):
            out[k] = ("int", v)
        elif isinstance(v, float):
            out[k] = ("double", struct.pack("<d", v))
        elif isinstance(v, str):
            out[k] = ("str", v)
        elif isinstance(v, (bytes, bytearray, memoryview)):
            out[k] = ("bytes", bytes(v))
        else:
            out[k] = ("?" + type(v).__name__, repr(v))
    return out


def first_diff(a, b, path=""):
    if isinstance(a, dict) and isinstance(b, dict):
        for k in sorted(set(a) | set(b)):
            if k not in a:
                return f"{path}/{k}: missing from the decoded tree (stored {str(b[k])[:80]})"
            if k not in b:
                return f"{path}/{k}: decoded but not stored (got {str(a[k])[:80]})"
            d = first_diff(a[k], b[k], f"{path}/{k}")
            if d:
                return d
        return None
    if a != b:
        return f"{path}: got {str(a)[:120]} stored {str(b)[:120]}"
    return None


def mini_decode(raw: bytes) -> dict:
    """Independent mini-decoder (validates the writer's reading of the layout against the real samples)."""
    h1 = struct.unpack_from("<IIHI", raw, 0)
    h2 = struct.unpack_from("<IIHI", raw, 0x1000)
    tables = {}
    files = {}
    todo = [0x2000]
    seen = set()
    objs = []
    while todo:
        base = todo.pop(0)
        if base in seen:
            continue
        seen.add(base)
        n = struct.unpack_from("<I", raw, base + 4)[0]
        for i in range(n):
            rec = struct.unpack_from("<BIQIB", raw, base + 8 + 18 * i)
            objs.append(rec)
            if rec[4] and rec[0] == 1:
                todo.append(rec[2])
    for t, _, off, size, al in objs:
        if not al:
            continue
        if t == 2:
            sig, idx, seq = struct.unpack_from("<HHH", raw, off)
            if idx not in tables or tables[idx][0] < seq:
                tables[idx] = (seq, off, size)
        elif t == 3:
            files[off] = size
    ents = {}
    for idx, (seq, off, size) in tables.items():
        p = 10
        while p + 21 <= size:
            typ, sz, ptbl, poff, _, _, doff = struct.unpack_from("<HIHIIIB", raw, off + p)
            if sz == 0:
                break
            ents[(idx, p)] = (typ & 0xFF, typ >> 8, ptbl, poff, raw[off + p + 21 : off + p + sz], doff)
            p += sz
    nodes = {}
    root = {}
    for key, (t, fl, ptbl, poff, body, doff) in ents.items():
        if t == 9:
            nodes[key] = {}
    for key, (t, fl, ptbl, poff, body, doff) in ents.items():
        if t == 1:
            continue
        name = body[: doff - 1].decode("utf-8")
        val = body[doff:]
        if t == 9:
            v = nodes[key]
        elif t == 3:
            v = ("int", struct.unpack("<q", val[:8])[0])
        elif t == 4:
            v = ("int", struct.unpack("<Q", val[:8])[0])
        elif t == 5:
            v = ("double", bytes(val[:8]))
        elif t == 8:
            v = ("bool", struct.unpack("<I", val[:4])[0] != 0)
        elif t in (6, 7):
            if fl & 1:
                ln, fo = struct.unpack("<IQ", val[:12])
                data = raw[fo : fo + ln]
            else:
                ln = struct.unpack("<I", val[:4])[0]
                data = val[4 : 4 + ln]
            v = ("str", bytes(data).decode("utf-16-le")) if t == 6 else ("bytes", bytes(data))
        else:
            continue
        (nodes[(ptbl, poff)] if ptbl else root)[name] = v
    return root


def run(case: dict, ctx) -> dict:
    from dissect.hypervisor.descriptor.hyperv import HyperVFile

    res = {"cnt": {}, "viol": [], "sets": {}}
    cnt = res["cnt"]
    if case.get("fixture"):
        raw = open(os.path.join(DATA, case["fixture"]), "rb").read()
        want = mini_decode(raw)
        o = call(lambda: HyperVFile(as_handle(raw)).as_dict())
        if not o.ok:
            res["viol"].append({"what": f"fixture failed to decode: {o.brief()}", "mech": MECH, "detail": {"tb": o.tb}})
            return res
        d = first_diff(normalise(o.value), want)
        if d:
            # the samples are the ground truth for the *writer's* layout: a disagreement here blames the harness
            raise AssertionError(f"mini-decoder and repository disagree on {case['fixture']}: {d}")
        cnt["fixture_cases"] = 1
        cnt["values_compared"] = _count(want)
        res["nontrivial"] = True
        res["sig"] = ("fixture", case["fixture"])
        res["sample"] = {"fixture": case["fixture"], "values": cnt["values_compared"]}
        return res

    rng = rng_for(ctx.seed, ID, case["i"])
    counts = {"files": 0}
    budget = [rng.choice([3, 10, 40, 120])]
    tree = gen_tree(rng, 0, budget, counts)
    ntables = rng.choice([1, 1, 2, 3, 5, 8, 12])
    s1, s2 = rng.choice([(3, 7), (7, 3), (0, 1), (65535, 65534), (rng.randrange(65536), rng.randrange(65536))])
    if s1 == s2:
        s2 = (s1 + 1) % 65536
    stale = rng.choice([0, 0, 1, 2, 3])
    emptied = rng.choice([0, 0, 0, 1, 2])
    # one object table with more entries than fit a 4 KiB page (its length is its entry count): many of them unallocated
    big_ot = {"first_table_pages": 3, "pad_objects": rng.randrange(230, 520)} if rng.random() < 0.2 else {}
    raw, meta = w.build(rng, tree, ntables=ntables, seqs=(s1, s2), stale_tables=stale, free_prob=rng.choice([0, 0.15, 0.4]), emptied_tables=emptied, backward_chain=rng.random() < 0.4, released_object_table=rng.random() < 0.25,
                        table_order=rng.choice(["shuffle", "shuffle", "seq"]), extra_object_tables=rng.choice([0, 0, 1, 3]),
                        trailer_mode=rng.choice(["12", "12", "0", "rand"]), stale_same_layout=rng.random() < 0.7,
                        replay_entries=rng.choice([0, 0, 3]), inactive_slot=rng.choice(["valid", "valid", "zero", "garbage"]), **big_ot)
    want = expected(tree)
    # writer self-check against the independent mini-decoder (never blames the repository)
    md = mini_decode(raw)
    dself = first_diff(md, want)
    if dself:
        raise AssertionError(f"writer/mini-decoder disagreement: {dself}")
    fh = as_handle(raw)
    o = call(HyperVFile, fh)
    if not o.ok:
        res["viol"].append({"what": f"open failed on a well-formed file: {o.brief()}", "mech": MECH, "detail": {"tb": o.tb}})
        return res
    hf = o.value
    if hf.header.sequence_number != max(s1, s2):
        res["viol"].append({"what": "active header is not the one with the highest sequence number", "mech": MECH,
                            "detail": {"active": hf.header.sequence_number, "stored": [s1, s2]}})
    o2 = call(hf.as_dict)
    if not o2.ok:
        res["viol"].append({"what": f"as_dict raised on a well-formed file: {o2.brief()}", "mech": MECH, "detail": {"tb": o2.tb}})
        return res
    got = normalise(o2.value)
    d = first_diff(got, want)
    if d:
        res["viol"].append({"what": "decoded tree differs from the stored tree", "mech": MECH, "detail": {"first_difference": d, "tables": ntables, "stale": stale}})
    # navigation interface on a few random paths
    paths = _paths(tree)
    for p in rng.sample(paths, k=min(6, len(paths))):
        node = hf
        ok = True
        try:
            for k in p[:-1]:
                node = node[k]
            leaf = node[p[-1]]
        except Exception as e:  # noqa: BLE001
            res["viol"].append({"what": f"navigation failed: {type(e).__name__}", "mech": MECH, "detail": {"path": p}})
            ok = False
        if ok and not isinstance(_get(tree, p), dict):
            v = call(lambda: leaf.value)
            n1 = normalise({"x": v.value})["x"] if v.ok else ("raised", v.brief())
            if n1 != _get(want, p):
                res["viol"].append({"what": "entry.value differs from the stored value", "mech": MECH, "detail": {"path": p, "got": str(n1)[:100]}})
        cnt["navigations"] = cnt.get("navigations", 0) + 1
    # mapping-style API: keys()/items()/values() of the file and of nodes mirror the stored children
    api = call(lambda: (sorted(hf.keys()), sorted(k_ for k_, _ in hf.items()), len(list(hf.values())), hf.version))
    if not api.ok or api.value[0] != sorted(tree) or api.value[1] != sorted(tree) or api.value[2] != len(tree) or api.value[3] != 0x400:
        res["viol"].append({"what": "keys()/items()/values()/version of the file differ from the stored root", "mech": MECH, "detail": {"got": api.brief() if not api.ok else str(api.value)[:200]}})
    for p_ in rng.sample(paths, k=min(8, len(paths))):
        sub = _get(tree, p_)
        node = call(lambda: _nav(hf, p_))
        if not node.ok:
            continue
        e_ = node.value
        if isinstance(sub, dict):
            kk = call(lambda: (sorted(e_.keys()), sorted(k_ for k_, _ in e_.items()), len(list(e_.values()))))
            if not kk.ok or kk.value[0] != sorted(sub) or kk.value[1] != sorted(sub) or kk.value[2] != len(sub):
                res["viol"].append({"what": "node keys()/items()/values() differ from the stored children", "mech": MECH, "detail": {"path": p_}})
        else:
            # sizes and file-object plumbing of leaf entries
            if sub.file_object:
                payload = sub.value.encode("utf-16-le") if sub.kind == "string" else bytes(sub.value)
                # open(0) means "the whole (aligned) object" in the reader's API, so open() is only compared for non-empty payloads
                fo = call(lambda: (e_.is_file_object_pointer, e_.file_object_pointer[1], e_.get_file_object().read(len(payload)),
                                   e_.get_file_object().open(len(payload)).read() if payload else b""))
                if not fo.ok or fo.value != (True, len(payload), payload, payload):
                    res["viol"].append({"what": "file-object pointer / content differs from the stored payload", "mech": MECH,
                                        "detail": {"path": p_, "got": fo.brief() if not fo.ok else str(fo.value[:2])}})
                cnt["file_object_api_checks"] = cnt.get("file_object_api_checks", 0) + 1
                if len(payload) >= 4:
                    # a short peek into the object first, then the whole of it (same member object) and the decoded value
                    k_short = rng.randrange(1, len(payload) // 2 + 1)
                    pk = call(lambda: (lambda f_: (f_.read(k_short), f_.read(), f_.read(len(payload)), e_.value))(e_.get_file_object()))
                    want_v = _get(want, p_)
                    got_v = normalise({"x": pk.value[3]})["x"] if pk.ok else None
                    # (read() without a length returns the whole, alignment-padded object: the payload is its beginning)
                    if not pk.ok or (pk.value[0], pk.value[1][: len(payload)], pk.value[2]) != (payload[:k_short], payload, payload) or got_v != want_v:
                        res["viol"].append({"what": "a short read from a file object changes what later reads / the decoded value return", "mech": MECH,
                                            "detail": {"path": p_, "peek": k_short, "stored_len": len(payload),
                                                       "got_lens": [len(x) for x in pk.value[:3]] if pk.ok else pk.brief()}})
                    cnt["file_object_peek_then_value"] = cnt.get("file_object_peek_then_value", 0) + 1
            else:
                vs = call(lambda: (e_.value_size, e_.key, e_.is_file_object_pointer))
                stored = {"int": 8, "uint": 8, "double": 8, "bool": 4}.get(sub.kind)
                if stored is None:
                    stored = len(sub.value.encode("utf-16-le")) if sub.kind == "string" else len(sub.value)
                if not vs.ok or vs.value != (stored, p_[-1], False):
                    res["viol"].append({"what": "value_size / key / pointer flag differ from the stored entry", "mech": MECH,
                                        "detail": {"path": p_, "got": vs.brief() if not vs.ok else str(vs.value), "stored_size": stored}})
        cnt["api_checks"] = cnt.get("api_checks", 0) + 1
    # a fresh object of the same file, where the very first thing that happens to a file object is a short peek by the caller:
    # whatever is decoded afterwards is still the whole stored value
    fo_paths = [p_ for p_ in paths if not isinstance(_get(tree, p_), dict) and _get(tree, p_).file_object and len(_get(tree, p_).value) >= 2]
    if fo_paths and not res["viol"]:
        hf2 = call(HyperVFile, as_handle(raw))
        if hf2.ok:
            for p_ in rng.sample(fo_paths, k=min(3, len(fo_paths))):
                k_short = rng.choice([1, 2, 16])
                pk = call(lambda: _nav(hf2.value, p_).get_file_object().read(k_short))
                cnt["fresh_object_peeks"] = cnt.get("fresh_object_peeks", 0) + 1
                if not pk.ok:
                    res["viol"].append({"what": f"file object read raised: {pk.brief()}", "mech": MECH, "detail": {"path": p_}})
            d2 = call(lambda: normalise(hf2.value.as_dict()))
            dd = first_diff(d2.value, want) if d2.ok else d2.brief()
            if dd:
                res["viol"].append({"what": "decoded tree differs from the stored tree after the caller peeked into a file object", "mech": MECH,
                                    "detail": {"first_difference": str(dd)[:300]}})
    if fh.mutations:
        res["viol"].append({"what": "handle mutated", "mech": "c09.handle", "detail": {"m": fh.mutations[:3]}})
    nvals = _count(want)
    cnt["values_compared"] = nvals
    cnt["file_object_values"] = meta["file_objects"]
    cnt["stale_tables"] = stale * ntables if stale else 0
    cnt["emptied_key_tables"] = emptied
    cnt["multi_table_files"] = int(ntables > 1)
    cnt["extra_object_table_files"] = int(meta["extra_object_tables"] > 0)
    kinds = sorted({v.kind for v in _leaves(tree)})
    res["sets"]["value_types"] = kinds
    res["sets"]["tables_per_file"] = [ntables]
    res["sets"]["tree_depths"] = [_depth(tree)]
    res["nontrivial"] = len(kinds) >= 2 and nvals >= 2
    res["sig"] = (case["i"], nvals, ntables, stale)
    res["sample"] = {"entries": meta["entries"], "tables": ntables, "stale_generations": stale, "file_objects": meta["file_objects"],
                     "header_seqs": [s1, s2], "depth": _depth(tree), "some_leaves": [repr(v) for v in list(_leaves(tree))[:4]]}
    return res


def _nav(hf, p):
    node = hf
    for k in p:
        node = node[k]
    return node


def _leaves(t):
    for v in t.values():
        if isinstance(v, dict):
            yield from _leaves(v)
        else:
            yield v


def _count(t):
    return sum(_count(v) if isinstance(v, dict) else 1 for v in t.values())


def _depth(t):
    return 1 + max((_depth(v) for v in t.values() if isinstance(v, dict)), default=0)


def _paths(t, pre=()):
    out = []
    for k, v in t.items():
        out.append(pre + (k,))
        if isinstance(v, dict):
            out += _paths(v, pre + (k,))
    return out


def _get(t, p):
    for k in p:
        t = t[k]
    return t
