"""C11 - Termination and bounded resources on arbitrary input."""
from __future__ import annotations

import gzip
import io
import os
import struct
import zlib
from pathlib import Path

from vf import corpus
from vf.core import SECTOR, as_handle, rng_for
from vf.monitors import call
from vf.writers import hds as whds
from vf.writers import qcow2 as wq
from vf.writers import vhdx as wvhdx
from vf.writers import vmdk as wvmdk
from vf.writers import vmxcrypt as wvx

ID = "C11"
LEVEL = "fault_enumeration"
MEMORY = True
STEP_BUDGET = 30_000_000
ANCHOR_FILES = [f"dissect/hypervisor/{m}.py" for m in ("disk/qcow2", "disk/vmdk", "disk/vhdx", "disk/vhd", "disk/vdi", "disk/hdd", "descriptor/hyperv",
                                                       "util/envelope", "util/vmtar", "descriptor/vmx")]
RULE = (
    "Fault enumeration from valid writer images of every format (QCOW2 std/ext-L2, VMDK hosted/stream/COWD/SE-sparse, "
    "VHDX, VHD dyn/fixed, VDI, HDS v1/v2, Hyper-V generated + real sample, envelope, vmtar plain/gzip): every mapped "
    "header/table field set to 0, 1, max, max-1, value+-1, half range, its own offset (bytes and sectors), the file "
    "size (bytes and sectors); truncation at every structure boundary and at random points; random 1..16-byte "
    "corruption; crafted cycles (Hyper-V object tables listing themselves / each other, Parallels Shot parent cycles "
    "incl. cycles that do not pass through the opened snapshot, VMDK and VHDX parents naming themselves), decompression "
    "bombs (QCOW2 compressed clusters and VMDK grains expanding >= 1000x, read at every in-cluster alignment; gzip "
    "bombs behind vmtar), hostile text (deeply nested key-safe lists, giant VMX/keystore lines, deep dotted keystore "
    "names; every text grammar fed one token repeated 20 000 and 80 000 characters long), and well-formed almost "
    "empty images with 64 MiB..1 GiB allocation units read 512 bytes at a time. Each case = open + reads of <= 64 KiB at {0, middle, end-64 KiB} + metadata access; any exception is "
    "acceptable. 'Never loops forever' is restated as bounded progress: line events in repository/cstruct/util code <= "
    "min(2.5e5 + 100 x len(input) + 8 x len(request), 3e7) (the callback aborts the case and records the stack), traced "
    "peak memory <= 64 MiB + 64 x (len(input) + len(request)), and no inflate call without an output bound may produce "
    "more than 2 MiB. Work inside C code (regular expressions, zlib) is invisible to line events: it is bounded by "
    "thread CPU time - 4x the text may cost at most 9x the CPU (and an absolute bound of 30 s + 25 us/byte on top of "
    "2 us per counted line event). distinct = (format, field or mutation class, value class)."
)
ASSUMPTIONS = [
    "loops inside C extensions are invisible to the step clock; they are judged by thread CPU time (load-independent), and a call that never returns is left to the wall-clock watchdog -> inconclusive",
    "inputs are at most a few MiB; the budget formula is the harness's restatement of 'modest function of input and request size'",
    "held means: held on the cases enumerated",
]
MINIMA = {"quick": {"cases": 2500, "raised": 800, "returned": 500, "crafted_cases": 60}, "thorough": {"cases": 100000}}
MECH = "resources"
REQ = 3 * 65536
_CACHE = {}


VARIANTS = {"quick": 1, "thorough": 4}
_TIER = ["quick"]


def worker_init(ctx):
    # an address-space ceiling for the worker: runaway allocations end in MemoryError inside the case (and are then seen by the
    # in-flight memory probe) instead of in the kernel's OOM killer taking the whole shard down
    import resource

    resource.setrlimit(resource.RLIMIT_AS, (8 << 30, 8 << 30))


def inputs(seed: int):
    """The corpus: one set of valid inputs in the quick tier, four differently drawn sets in the thorough tier."""
    key = (seed, _TIER[0])
    if key not in _CACHE:
        out = []
        for v in range(VARIANTS[_TIER[0]]):
            out += corpus.build_inputs(rng_for(seed, "corpus", v) if v else rng_for(seed, "corpus"))
        _CACHE[key] = out
    return _CACHE[key]


def field_values(size: int, cur: int, off: int, fsize: int) -> list[tuple[str, int]]:
    bits = 8 * size
    mx = (1 << bits) - 1
    vals = [("zero", 0), ("one", 1), ("max", mx), ("max-1", mx - 1), ("plus1", (cur + 1) & mx), ("minus1", (cur - 1) & mx), ("half", 1 << (bits - 1)),
            ("self-off", off & mx), ("self-sector", (off // SECTOR) & mx), ("filesize", fsize & mx), ("filesize-sectors", (fsize // SECTOR) & mx),
            ("filesize+1", (fsize + 1) & mx), ("64k", 0xFFFF & mx), ("2^31", (1 << 31) & mx)]
    seen, out = set(), []
    for n, v in vals:
        if v != cur and v not in seen:
            seen.add(v)
            out.append((n, v))
    return out


def plan(tier: str, seed: int) -> list[dict]:
    cases = []
    _TIER[0] = tier
    inps = inputs(seed)
    rng = rng_for(seed, ID, "plan")
    for ii, inp in enumerate(inps):
        raw = corpus.get_raw(inp)
        for fi, (name, off, size, endian) in enumerate(inp.fields):
            if size > 8:
                muts = [("zero", None), ("ff", None), ("flip", None)]
            else:
                cur = int.from_bytes(raw[off : off + size], "little" if endian == "<" else "big")
                muts = field_values(size, cur, off, len(raw))
            if tier == "quick":
                # all classes for counts/offsets/sizes are kept; thin out only plain data words
                muts = muts if len(muts) <= 6 else [m for j, m in enumerate(muts) if j < 4 or (j + fi) % 2 == 0]
            for mname, v in muts:
                cases.append({"k": "field", "inp": ii, "f": fi, "m": mname, "v": v})
        for b in inp.bounds:
            for d in ((0,) if tier == "quick" else (-1, 0, 1)):
                cases.append({"k": "trunc", "inp": ii, "at": b + d})
        for j in range(6 if tier == "quick" else 150):
            cases.append({"k": "trunc", "inp": ii, "at": rng.randrange(0, len(raw))})
        for j in range(25 if tier == "quick" else 1500):
            cases.append({"k": "rand", "inp": ii, "j": j})
    crafted = ["hv-self", "hv-pair", "hv-chain", "shot-self", "shot-pair", "shot-mid-self", "shot-base-mid", "vmdk-self-parent", "vhdx-self-parent",
               "qcow2-bomb", "vmdk-bomb", "vmtar-gzbomb", "vmx-nested", "vmx-giant", "keystore-deep", "qcow2-snap-zero-table", "vmdk-desc-giant", "keysafe-deep-pair", "qcow2-snap-shared-l1",
               "big-unit", "big-unit", "vhdx-diff-bitmap", "vmtar-pax", "vmtar-pax", "vmtar-pax", "qcow2-ext-wrap", "qcow2-ext-wrap", "layered-corrupt", "layered-corrupt", "layered-corrupt", "layered-corrupt", "layered-corrupt", "layered-corrupt"]
    crafted = [(c, j) for j, c in enumerate(crafted)]
    # every (text grammar, repeated token) combination, in both tiers
    for idx in range(len(TOKENS) * len(TARGETS)):
        cases.append({"k": "crafted", "c": "text-repeat", "r": idx, "weight": 2})
    for c, j in crafted:
        for r in range(4 if tier == "quick" else 40):
            cases.append({"k": "crafted", "c": c, "r": r + 1000 * j if c in ("big-unit", "text-repeat", "layered-corrupt", "vmtar-pax", "qcow2-ext-wrap") else r, "weight": 4})
    return cases


def run(case: dict, ctx) -> dict:
    res = {"cnt": {}, "viol": [], "sets": {}}
    cnt = res["cnt"]
    k = case["k"]
    if k == "crafted":
        return _crafted(case, ctx, res)
    _TIER[0] = ctx.tier
    inp = inputs(ctx.seed)[case["inp"]]
    raw = bytearray(corpus.get_raw(inp))
    label = ""
    if k == "field":
        name, off, size, endian = inp.fields[case["f"]]
        if case["v"] is None:
            if case["m"] == "zero":
                raw[off : off + size] = b"\0" * size
            elif case["m"] == "ff":
                raw[off : off + size] = b"\xff" * size
            else:
                raw[off] ^= 0x01
        else:
            raw[off : off + size] = case["v"].to_bytes(size, "little" if endian == "<" else "big")
        label = f"{inp.fmt}:{name}={case['m']}"
    elif k == "trunc":
        raw = raw[: max(0, case["at"])]
        label = f"{inp.fmt}:truncate"
    else:
        rng = rng_for(ctx.seed, ID, "rand", case["inp"], case["j"])
        for _ in range(rng.randrange(1, 4)):
            o = rng.randrange(0, len(raw))
            n = rng.randrange(1, 17)
            raw[o : o + n] = bytes(rng.randrange(256) for _ in range(n))[: len(raw) - o]
        label = f"{inp.fmt}:random-corruption"
    raw = bytes(raw)
    in_len = len(raw) if inp.raw is not None else inp.aux["sparse"].stored_bytes()
    budget = int(min(2.5e5 + 100 * in_len + 8 * REQ, 3e7))
    ctx.steps.begin_case(budget)
    ctx.steps.cpu_budget = 60.0
    ctx.steps.mem_probe, ctx.steps.mem_budget = ctx.mem.peak, 1 << 30
    fh = corpus.make_handle(inp, raw)
    ctx.mem.begin()
    o = call(corpus.exercise, inp.fmt, fh, inp.aux)
    _judge(ctx, res, o, label, in_len)
    cnt["cases"] = 1
    cnt[f"{k}_cases"] = 1
    res["sets"]["formats"] = [inp.fmt]
    res["nontrivial"] = True
    res["sig"] = (k, case.get("inp"), case.get("f"), case.get("m"), case.get("at"), case.get("j"))
    res["sample"] = {"mutation": label, "outcome": o.brief()[:100], "steps": ctx.steps.steps, "budget": budget}
    return res


# thread CPU seconds allowed per case on top of what the step clock accounts for (generous: tracemalloc, the audit hook
# and the line monitor multiply the cost of a thousand nested opens); super-linear work in C code is judged by growth
# between two sizes of the same input instead (text-repeat cases)
CPU_BASE = 30.0
CPU_PER_BYTE = 25e-6
CPU_PER_STEP = 2e-6  # a monitored line event costs about 0.6 us here


def _judge(ctx, res, o, label, in_len, units_ok=2 << 20):
    cnt = res["cnt"]
    if o.ok:
        cnt["returned"] = 1
    else:
        cnt["raised"] = 1
        res["sets"]["exception_types"] = [o.exc_name()]
    peak = ctx.mem.peak()
    bound = (64 << 20) + 64 * (in_len + REQ)
    if peak > bound:
        res["viol"].append({"what": "traced peak memory exceeds the bound for this input", "mech": "resources.memory",
                            "detail": {"case": label, "peak": peak, "bound": bound, "input_len": in_len}})
    cpu = ctx.mem.cpu()
    # work the step clock sees is bounded by the step budget; what is left over is time spent inside C code
    cpu_bound = CPU_BASE + CPU_PER_BYTE * (in_len + REQ) + CPU_PER_STEP * ctx.steps.steps
    cnt["cpu_ms_total"] = int(cpu * 1000)
    if cpu > cpu_bound:
        res["viol"].append({"what": "thread CPU time exceeds the bound for this input", "mech": "resources.cpu",
                            "detail": {"case": label, "cpu_seconds": round(cpu, 2), "bound_seconds": round(cpu_bound, 2), "input_len": in_len}})
    for e in ctx.inflate.events:
        unbounded = e["max_length"] in (None, 0)
        if unbounded and e["out"] > units_ok:
            res["viol"].append({"what": "inflate call without an output bound produced more than 2 MiB", "mech": "resources.inflate", "detail": {"case": label, **e}})
            break
        if e["out"] > (64 << 20):
            res["viol"].append({"what": "inflate produced more than 64 MiB for one allocation unit", "mech": "resources.inflate", "detail": {"case": label, **e}})
            break
    cnt["inflate_calls_seen"] = len(ctx.inflate.events)


TOKENS = ["(", ")", "((", "()", '"', '\\"', " ", "\t", "/", ",", "=", "%", "%2", "a=", ":", "#", "list/(", "pair/(", 'x" "', "phrase/", "a/", "(a,"]
TARGETS = ["keysafe", "keysafe-list", "keysafe-pair", "vmx-key", "vmx-value", "extent-line", "extent-name", "extent-open-quote", "extent-quote-junk", "ddb", "keystore"]


def _big_unit_image(rng, fmt: str):
    """-> (SparseFile, reader class, unit bytes): every unit unallocated/absent, a few KiB stored."""
    MiB = 1 << 20
    if fmt == "vdi":
        from dissect.hypervisor.disk.vdi import VDI
        from vf.writers import vdi as wvdi

        unit = rng.choice([64, 256, 1024]) * MiB
        sf, _, _ = wvdi.build(rng, block_size=unit, nblocks=4, states=["U"] * 4, tag=1)
        return sf, VDI, unit
    if fmt == "vhdx":
        from dissect.hypervisor.disk.vhdx import VHDX
        from vf.writers import vhdx as wvhdx

        unit = rng.choice([128, 256]) * MiB
        sf, _, _ = wvhdx.build(rng, block_size=unit, sector_size=rng.choice([512, 4096]), nblocks=4, states=[0, 0, 0, 0], tag=1, checksums=False)
        return sf, VHDX, unit
    if fmt == "vhd":
        from dissect.hypervisor.disk.vhd import VHD
        from vf.writers import vhd as wvhd

        unit = rng.choice([64, 256]) * MiB
        sf, _, _ = wvhd.build_dynamic(rng, block_size=unit, nblocks=4, states=["U"] * 4, tag=1)
        return sf, VHD, unit
    if fmt == "hds":
        from dissect.hypervisor.disk.hdd import HDS
        from vf.writers import hds as whds

        unit = rng.choice([64, 512]) * MiB
        sf, _, _ = whds.build_hds(rng, version=2, m_sectors=unit // 512, nclusters=4, states=["U"] * 4, tag=1)
        return sf, HDS, unit
    if fmt == "vmdk":
        from dissect.hypervisor.disk.vmdk import VMDK

        unit = rng.choice([64, 128]) * MiB
        sf, _, _ = wvmdk.build_hosted(rng, capacity=4 * unit // 512, grain=unit // 512, ngte=512, states=["U"] * 4, tag=1)
        return sf, VMDK, unit
    from dissect.hypervisor.disk.qcow2 import QCow2

    unit = 2 * MiB
    ext = rng.random() < 0.5
    view = wq.make_view(rng, size=64 * unit, cluster_bits=21, kinds="U" * 64, extl2=ext, tag=1)
    sf, _, _ = wq.build(rng, cluster_bits=21, size=64 * unit, views=[view], extl2=ext, placement="seq")
    return sf, QCow2, unit


def _crafted(case, ctx, res):
    cnt = res["cnt"]
    c = case["c"]
    rng = rng_for(ctx.seed, ID, "crafted", c, case["r"])
    in_len = 1 << 16
    label = f"crafted:{c}"
    ctx.steps.begin_case(int(3e7))
    ctx.steps.cpu_budget = 90.0  # seconds of thread CPU per crafted case, judged while the case runs (the unchanged tree needs < 15)
    ctx.steps.mem_probe, ctx.steps.mem_budget = ctx.mem.peak, 1 << 30  # and 1 GiB of traced memory (crafted inputs are a few MiB at most)
    if c.startswith("hv-"):
        from dissect.hypervisor.descriptor.hyperv import HyperVFile

        raw = bytearray(open(os.path.join(corpus.DATA, rng.choice(["test.VMRS", "test.vmcx"])), "rb").read())
        n = struct.unpack_from("<I", raw, 0x2004)[0]
        free = [i for i in range(n) if raw[0x2008 + 18 * i + 17] == 0]
        slots = free[:3] if len(free) >= 3 else list(range(n - 3, n))

        def put(i, typ, off, size):
            raw[0x2008 + 18 * i : 0x2008 + 18 * i + 18] = struct.pack("<BIQIB", typ, 0, off, size, 1)

        # offsets that are not multiples of the file's alignment (a reader that rounds them finds the same tables again under
        # another number): the cycle is the same, its spelling differs
        skew = rng.choice([0, 0, 1, 7, 0x800, 0xFFF]) if case["r"] % 2 else 0
        label += f":skew{skew:#x}"
        if c == "hv-self":
            put(slots[0], 1, 0x2000 - skew if skew else 0x2000, 0x1000)
            if skew:
                put(slots[1], 1, 0x1000 + (0x1000 - skew), 0x1000)
        elif c == "hv-pair":
            second = -(-len(raw) // 0x1000) * 0x1000
            raw += b"\0" * (second - len(raw))
            if skew:
                second_ref = second - skew
            else:
                second_ref = second
            raw += struct.pack("<II", 0x01110001, 1) + struct.pack("<BIQIB", 1, 0, 0x2000 - skew if skew else 0x2000, 0x1000, 1) + b"\0" * 64
            put(slots[0], 1, second_ref, 0x1000)
        elif False:  # (kept for the diff's sake: the old, aligned-only construction)
            second = len(raw)
            raw += struct.pack("<II", 0x01110001, 1) + struct.pack("<BIQIB", 1, 0, 0x2000, 0x1000, 1) + b"\0" * 64
            put(slots[0], 1, second, 0x1000)
        else:
            # a chain of tables where the last points back to the middle one
            a, b = len(raw), len(raw) + 0x100
            raw += (struct.pack("<II", 0x01110001, 1) + struct.pack("<BIQIB", 1, 0, b, 0x100, 1)).ljust(0x100, b"\0")
            raw += (struct.pack("<II", 0x01110001, 2) + struct.pack("<BIQIB", 1, 0, a, 0x100, 1) + struct.pack("<BIQIB", 1, 0, b, 0x100, 1)).ljust(0x100, b"\0")
            put(slots[0], 1, a, 0x100)
        in_len = len(raw)
        ctx.mem.begin()
        o = call(lambda: len(HyperVFile(io.BytesIO(bytes(raw))).as_dict()))
    elif c.startswith("shot-"):
        from dissect.hypervisor.disk.hdd import HDD

        d = Path(ctx.tmpdir()) / "c.hdd"
        top, mid, base = whds.DEFAULT_TOP, "{22222222-2222-2222-2222-222222222222}", "{33333333-3333-3333-3333-333333333333}"
        parents = {"shot-self": {top: top, mid: base, base: whds.NULL_GUID}, "shot-pair": {top: mid, mid: top, base: whds.NULL_GUID},
                   "shot-mid-self": {top: mid, mid: mid, base: whds.NULL_GUID}, "shot-base-mid": {top: mid, mid: base, base: mid}}[c]
        shots = [(g, p) for g, p in parents.items()]
        rng.shuffle(shots)
        imgs = [{"guid": g, "type": "Plain", "file": "a.hds"} for g in (top, mid, base)]
        whds.write_hdd_dir(str(d), [{"start": 0, "end": 16, "images": imgs}], shots, files={"a.hds": b"Q" * 8192})
        ctx.mem.begin()
        o = call(lambda: HDD(d).open().read(4096))
    elif c == "vmdk-self-parent":
        from dissect.hypervisor.disk.vmdk import VMDK

        d = Path(ctx.tmpdir())
        sf, _, _ = wvmdk.build_hosted(rng, capacity=64, grain=8, ngte=64, tag=1)
        sf.write_to(d / "x-delta.vmdk")
        (d / "x.vmdk").write_text(wvmdk.descriptor_text(['RW 64 SPARSE "x-delta.vmdk"'], parent_cid="12345678", parent_hint=rng.choice(["x.vmdk", "/a/b/x.vmdk"])))
        ctx.mem.begin()
        o = call(lambda: VMDK(d / "x.vmdk").read(4096))
    elif c == "vhdx-self-parent":
        from dissect.hypervisor.disk.vhdx import VHDX
        from vf.writers import vhdx as wv

        d = Path(ctx.tmpdir())
        shape = case["r"] % 3
        win = lambda p: str(p).replace("/", "\\")  # noqa: E731
        if shape == 0:
            locs = {"self.avhdx": [("relative_path", ".\\self.avhdx"), ("parent_linkage", "{x}")]}
        elif shape == 1:
            # every way of locating the parent (relative and absolute) leads back into the cycle
            locs = {"self.avhdx": [("relative_path", ".\\self.avhdx"), ("absolute_win32_path", win(d / "self.avhdx")), ("parent_linkage", "{x}")]}
        else:
            locs = {"a.avhdx": [("relative_path", ".\\b.avhdx"), ("absolute_win32_path", win(d / "b.avhdx")), ("parent_linkage", "{x}")],
                    "b.avhdx": [("relative_path", ".\\a.avhdx"), ("absolute_win32_path", win(d / "a.avhdx")), ("parent_linkage", "{y}")]}
        for fn_, ents_ in locs.items():
            loc = wv.parent_locator(ents_)
            sf, _, _ = wv.build(rng, block_size=1 << 20, sector_size=512, nblocks=2, states=[0, 0], tag=1, has_parent=True, locator=loc, checksums=False)
            sf.write_to(d / fn_)
        first_ = next(iter(locs))
        in_len = (d / first_).stat().st_size
        label = f"crafted:vhdx-self-parent:{['self', 'self-both-paths', 'pair-both-paths'][shape]}"
        ctx.mem.begin()
        o = call(lambda: VHDX(d / first_).read(4096))
    elif c == "qcow2-bomb":
        from dissect.hypervisor.disk.qcow2 import QCow2

        cb = rng.choice([12, 16])
        cs = 1 << cb
        co = zlib.compressobj(9, zlib.DEFLATED, -12)
        bomb = co.compress(b"\0" * (rng.choice([64, 256]) << 20)) + co.flush()
        view = wq.make_view(rng, size=4 * cs, cluster_bits=cb, kinds="CNCU", extl2=False, tag=1)
        img, _, meta = wq.build(rng, cluster_bits=cb, size=4 * cs, views=[view], placement="seq", tuned_frac=0.0)
        raw = bytearray(img.to_bytes())
        # append the bomb and point cluster 0's compressed descriptor at it with the maximum sector count
        off = -(-len(raw) // 512) * 512
        raw += b"\0" * (off - len(raw)) + bomb
        l1o = meta["l1_offset"]
        l2o = struct.unpack_from(">Q", raw, l1o)[0] & 0x00FFFFFFFFFFFE00
        shift = 62 - (cb - 8)
        nsec = (1 << (cb - 8)) - 1
        struct.pack_into(">Q", raw, l2o, (1 << 62) | off | (nsec << shift))
        in_len = len(raw)
        q = QCow2(io.BytesIO(bytes(raw)))
        reqs = [(0, 512), (cs - 512, 512), (0, cs), (cs // 2, cs), (0, 4 * cs), (cs - 8192, 8192), (100, 1)]
        ctx.mem.begin()
        o = call(lambda: [len(q.readoffset(a, n)) for a, n in reqs])
    elif c == "vmdk-bomb":
        from dissect.hypervisor.disk.vmdk import VMDK

        sf, _, meta = wvmdk.build_stream_optimized(rng, capacity=64, grain=8, ngte=64, states=["A"] * 8, tag=1, tuned_frac=0.0, incompressible_frac=0.0)
        raw = bytearray(sf.to_bytes())
        bomb = zlib.compress(b"\0" * (rng.choice([64, 256]) << 20), 9)
        foot = len(raw) - 1024
        gdo = struct.unpack_from("<Q", raw, foot + 56)[0] * SECTOR
        gto = struct.unpack_from("<I", raw, gdo)[0] * SECTOR
        off = -(-len(raw) // 512)
        rec = struct.pack("<QI", 0, len(bomb)) + bomb
        # keep the footer where the reader expects it: insert the bomb record before it by re-pointing grain 0 beyond the end
        raw = raw[:foot] + b"\0" * 0 + raw[foot:]
        tail = bytes(raw[foot:])
        body = bytes(raw[:foot])
        bomb_sector = -(-len(body) // SECTOR)
        body = body.ljust(bomb_sector * SECTOR, b"\0") + rec.ljust(-(-len(rec) // SECTOR) * SECTOR, b"\0")
        raw = bytearray(body + tail)
        struct.pack_into("<I", raw, gto, bomb_sector)
        if case["r"] % 2:
            # the two header copies disagree: the sector-0 copy (superseded by the footer) claims an enormous grain size,
            # a huge capacity or other nonsense; whatever bounds the inflate must come from the copy in force
            which = rng.choice(["grain", "capacity", "ngte"])
            if which == "grain":
                struct.pack_into("<Q", raw, 20, rng.choice([1 << 31, 1 << 40, (1 << 63) - 1]))
            elif which == "capacity":
                struct.pack_into("<Q", raw, 12, rng.choice([1 << 50, (1 << 64) - 1]))
            else:
                struct.pack_into("<I", raw, 44, 0xFFFFFFFF)
            label += f":stale-header-{which}"
        in_len = len(raw)
        v = VMDK(io.BytesIO(bytes(raw)))
        ctx.mem.begin()
        o = call(lambda: [len(v.readoffset(a, n)) for a, n in ((0, 512), (0, 4096), (2048, 8192))])
    elif c == "vhdx-diff-bitmap":
        # a differencing VHDX whose partially-present blocks have no usable sector bitmap (the chunk's bitmap entry is in a
        # state other than present, or points nowhere): any outcome but an endless loop
        from vf import chains
        from dissect.hypervisor.disk.vhdx import VHDX

        class _C:
            def tmpdir(self_inner):
                return ctx.tmpdir()

        op = chains.vhdx_diff(rng, _C(), depth=2, parent_config="relative", open_mode="path")
        top = Path(op.stream.fh.name) if hasattr(op.stream.fh, "name") else None
        raw = bytearray(top.read_bytes())
        rt = raw[3 * 65536 : 4 * 65536]
        nreg = struct.unpack_from("<I", rt, 8)[0]
        bat_off = next(struct.unpack_from("<Q", rt, 16 + 32 * i + 16)[0] for i in range(nreg) if rt[16 + 32 * i : 32 + 32 * i] == wvhdx.BAT_GUID)
        ratio = (2**23 * 512) // (1 << 20)
        ent = bat_off + 8 * ratio  # the first chunk's sector-bitmap entry
        old = struct.unpack_from("<Q", raw, ent)[0]
        new = rng.choice([0, 1, 2, 3, 4, 5, 7, (old & ~7) | rng.choice([0, 1, 2, 3]), 6 | (0xFFFFF << 20), 6])
        struct.pack_into("<Q", raw, ent, new)
        top.write_bytes(bytes(raw))
        in_len = len(raw)
        label = f"crafted:vhdx-diff-bitmap:{new & 7}"

        def f():
            v = VHDX(top)
            return [len(v.readoffset(a, n)) for a, n in ((0, 4096), (1 << 20, 8192), (v.size - 4096, 4096), (0, min(v.size, 3 << 20)))]

        ctx.mem.begin()
        o = call(f)
    elif c == "layered-corrupt":
        # chains opened by path (differencing VHDX, VMDK delta over a parent, Parallels snapshot chains): random corruption
        # of the top layer's file, where the reader's loops involve a parent as well
        from vf import chains

        class _C:
            def tmpdir(self_inner):
                return ctx.tmpdir()

        kind = ["vhdx", "vmdk", "hdd"][case["r"] % 3]
        if kind == "vhdx":
            from dissect.hypervisor.disk.vhdx import VHDX

            op = chains.vhdx_diff(rng, _C(), depth=rng.choice([2, 3]), parent_config="relative", open_mode="path")
            top = Path(op.stream.fh.name)
            reopen = lambda: VHDX(top)  # noqa: E731
        elif kind == "vmdk":
            from dissect.hypervisor.disk.vmdk import VMDK

            op = chains.vmdk_delta(rng, _C(), depth=rng.choice([2, 3]), parent_config="samedir", child_kind=rng.choice(["descriptor", "embedded"]))
            top = Path(op.info["top_path"])
            reopen = lambda: VMDK(top)  # noqa: E731
        else:
            from dissect.hypervisor.disk.hdd import HDD

            op = chains.hdd_snapshots(rng, _C(), depth=rng.choice([2, 3]), top_mode="default", nstorages=1)
            hd = Path(op.hdd.path)
            top = max((p for p in hd.iterdir() if p.suffix == ".hds"), key=lambda p: p.stat().st_mtime)
            reopen = lambda: HDD(hd).open()  # noqa: E731
        targets = [top]
        if kind == "vmdk":
            targets += [p for p in top.parent.iterdir() if p.is_file() and p != top and p.stat().st_size < (4 << 20)][:2]
        tgt = rng.choice(targets)
        raw = bytearray(tgt.read_bytes())
        for _ in range(rng.randrange(1, 4)):
            if not raw:
                break
            pos = rng.randrange(len(raw))
            if rng.random() < 0.7:
                # prefer bytes that carry something (headers, table entries) over zero padding
                for _try in range(200):
                    cand = rng.randrange(min(len(raw), 6 << 20))
                    if raw[cand]:
                        pos = cand
                        break
            n_ = rng.randrange(1, 9)
            raw[pos : pos + n_] = bytes(rng.randrange(256) for _ in range(n_))[: len(raw) - pos]
        tgt.write_bytes(bytes(raw))
        in_len = len(raw)
        label = f"crafted:layered-corrupt:{kind}"

        def f():
            v = reopen()
            return [len(v.readoffset(a, n)) for a, n in ((0, 4096), (v.size // 2, 8192), (max(0, v.size - 4096), 4096), (0, min(v.size, 2 << 20)))]

        ctx.mem.begin()
        o = call(f)
        res["sets"]["layered_kinds"] = [kind]
    elif c == "vmtar-pax":
        # pax extended headers (size / path / GNU.sparse records, some of them nonsense) in front of visor members whose data
        # offsets point backwards, at themselves or far away: iteration over the archive must end
        from dissect.hypervisor.util import vmtar
        from vf.writers import vmtar as wtar

        blocks = b""
        blocks += wtar.header(b"first", 0, b"0", offset_data=4096)
        for j in range(rng.randrange(1, 6)):
            recs = rng.sample([("size", rng.choice(["0", "512", "1", "99999999999", "-1", "x"])), ("path", "p" * rng.choice([1, 300])), ("GNU.sparse.size", "4096"),
                               ("GNU.sparse.map", "0,512"), ("GNU.sparse.major", "1"), ("GNU.sparse.minor", "0"), ("mtime", "1e999"), ("uid", "abc")], rng.randrange(1, 4))
            loop_shaped = rng.random() < 0.6
            if loop_shaped:
                # a well-formed size record: the reader recalculates where the next header is from the member that follows
                recs = [("size", rng.choice(["0", "0", "512", "1024"]))] + [r_ for r_ in recs if r_[0] not in ("size", "GNU.sparse.size", "GNU.sparse.map", "GNU.sparse.major")][:1]
            rec = wtar.pax_records(recs)
            here = len(blocks)
            blocks += wtar.header(b"PaxHeader", len(rec), rng.choice([b"x", b"x", b"g", b"X"]), visor=rng.random() < 0.3)
            blocks += rec.ljust(-(-len(rec) // 512) * 512, b"\0")
            target = rng.choice([0, 512, here, here + 512, len(blocks), len(blocks) + 512, 4096, 1 << 31, 0xFFFFFFFF])
            if loop_shaped:
                target = rng.choice([512 * rng.randrange(0, here // 512 + 1), here, here + 512, 512])
            blocks += wtar.header(f"victim{j}".encode(), rng.choice([0, 1, 512, 4096]), b"0", offset_data=target)
        raw = blocks + b"\0" * 8192
        in_len = len(raw)

        def f():
            t = vmtar.open(fileobj=io.BytesIO(raw), mode="r:")
            n_ = 0
            for m_ in t:
                n_ += 1
                if n_ > 100000:
                    raise AssertionError("more than 100000 members from a few KiB of archive")
            return n_

        ctx.mem.begin()
        o = call(f)
        if not o.ok and "more than 100000 members" in o.brief():
            res["viol"].append({"what": "iteration over the archive's members does not end", "mech": "non-termination", "detail": {"case": label, "input_len": in_len}})
    elif c == "vmtar-gzbomb":
        from dissect.hypervisor.util import vmtar

        inner = corpus.build_inputs(rng_for(ctx.seed, "corpus"))[-2].raw if False else None
        hdr = __import__("vf.writers.vmtar", fromlist=["header"]).header(b"big", 1 << 30, b"0", offset_data=4096)
        raw = gzip.compress(hdr + b"\0" * 1024 + b"\0" * (32 << 20), 9)
        in_len = len(raw)

        def f():
            t = vmtar.open(fileobj=io.BytesIO(raw))
            return [len(t.extractfile(m).read(1 << 20)) for m in t.getmembers() if m.isreg()]

        ctx.mem.begin()
        o = call(f)
    elif c in ("vmx-nested", "vmx-giant", "vmdk-desc-giant"):
        from dissect.hypervisor.descriptor.vmx import VMX
        from dissect.hypervisor.disk.vmdk import DiskDescriptor

        if c == "vmx-nested":
            depth = rng.choice([50, 2000, 20000])
            safe = "vmware:key/" + "list/(" * depth + "pair/(phrase/a/b,HMAC-SHA-1,AAAA)" + ")" * depth
            text = f'encryption.keySafe = "{safe}"\nencryption.data = "AAAA"\n'
            in_len = len(text)
            ctx.mem.begin()
            o = call(lambda: VMX.parse(text).unlock_with_phrase("x"))
        elif c == "vmx-giant":
            text = "a" * (1 << 20) + ' = "' + "b" * (1 << 20) + '"\n' + "\n".join(f"scsi0:{i}.fileName = \"d{i}.vmdk\"" for i in range(20000)) + "\n"
            in_len = len(text)
            ctx.mem.begin()
            o = call(lambda: len(VMX.parse(text).disks()))
        else:
            text = "# Disk DescriptorFile\n" + "\n".join(f'RW {i} SPARSE "e{i}.vmdk"' for i in range(30000)) + "\n" + "x" * (1 << 20) + "=y\n"
            in_len = len(text)
            ctx.mem.begin()
            o = call(lambda: len(DiskDescriptor.parse(text).extents))
    elif c == "keystore-deep":
        from dissect.hypervisor.util.envelope import KeyStore

        text = 'mode = "NONE"\n' + ".".join("k" * 3 for _ in range(rng.choice([1000, 100000]))) + ' = "v"\n' + "x" * (1 << 20) + "\n"
        in_len = len(text)
        ctx.mem.begin()
        o = call(lambda: KeyStore.from_text(text))
    elif c == "big-unit":
        # well-formed, almost empty images with very large allocation units: a 512-byte read must not cost a unit of memory
        fmt = ["vdi", "vhdx", "vhd", "hds", "vmdk", "qcow2"][case["r"] % 6]
        sf, cls, unit = _big_unit_image(rng, fmt)
        in_len = sf.stored_bytes()
        label = f"crafted:big-unit:{fmt}:{unit >> 20}MiB"

        def f():
            d = cls(as_handle(sf))
            out = []
            for off in (0, unit - 512, unit + 4096, d.size - 512):
                d.seek(off)
                out.append(len(d.read(512)))
            return out

        ctx.mem.begin()
        o = call(f)
        res["sets"]["big_unit_formats"] = [f"{fmt}:{unit >> 20}MiB"]
    elif c == "text-repeat":
        # one token repeated tens of thousands of times in front of every text grammar (regular expressions in C code
        # are invisible to the step clock; the CPU-time bound is what decides here)
        from dissect.hypervisor.descriptor.vmx import VMX
        from dissect.hypervisor.disk.vmdk import DiskDescriptor
        from dissect.hypervisor.util.envelope import KeyStore

        tok = TOKENS[(case["r"] // len(TARGETS)) % len(TOKENS)]
        target = TARGETS[case["r"] % len(TARGETS)]

        def make(total):
            n = total // len(tok)
            blob = tok * n
            if target.startswith("keysafe"):
                pre = {"keysafe": "", "keysafe-list": "vmware:key/list/", "keysafe-pair": "vmware:key/list/(pair/"}[target]
                q = (pre + blob).replace('"', "'")
                text = f'encryption.keySafe = "{q}"\nencryption.data = "AAAA"\n'
                return text, (lambda: VMX.parse(text).unlock_with_phrase("x"))
            if target == "vmx-key":
                text = blob.replace("=", "-").replace("#", "-") + ' = "v"\n'
                return text, (lambda: len(VMX.parse(text).attr))
            if target == "vmx-value":
                text = f'displayName = "{blob}"\nscsi0:0.fileName = "d.vmdk"\n'
                return text, (lambda: VMX.parse(text).disks())
            if target == "extent-line":
                text = "# Disk DescriptorFile\nversion=1\nRW 100 SPARSE " + blob + "\n"
                return text, (lambda: len(DiskDescriptor.parse(text).extents))
            if target == "extent-name":
                text = '# Disk DescriptorFile\nversion=1\nRW 100 SPARSE "' + blob + '" 0 ' + blob[:2000] + "\n"
                return text, (lambda: len(DiskDescriptor.parse(text).extents))
            if target == "extent-open-quote":
                # a file name whose closing quote is missing (a truncated or damaged line)
                text = '# Disk DescriptorFile\nversion=1\nRW 100 SPARSE "' + blob + "\n"
                return text, (lambda: len(DiskDescriptor.parse(text).extents))
            if target == "extent-quote-junk":
                # ... or is followed by something that is none of the optional fields
                text = '# Disk DescriptorFile\nversion=1\nRW 100 SPARSE "' + blob + '"junk' + blob[:50] + "\n"
                return text, (lambda: len(DiskDescriptor.parse(text).extents))
            if target == "ddb":
                text = "# Disk DescriptorFile\nversion=1\nddb." + blob + ' = "' + blob + '"\n'
                return text, (lambda: len(DiskDescriptor.parse(text).ddb))
            text = 'mode = "NONE"\n' + blob + ' = "' + blob + '"\n'
            return text, (lambda: KeyStore.from_text(text))

        # the same text at 1x and 4x the size: four times the input may cost about four times the CPU, not sixteen
        small, big = 20000, 80000
        # first a ladder of very short inputs: work that doubles with every added character (a regular expression that
        # backtracks) stays finite there - at full length it would simply never return from C code, and a run that the
        # watchdog has to end decides nothing
        label = f"crafted:text-repeat:{target}:{tok!r}"
        for n_short in (12, 16, 20, 24, 28):
            t_s, f_s = make(n_short)
            ctx.mem.begin()
            call(f_s)
            cpu_s = ctx.mem.cpu()
            cnt["short_ladder_runs"] = cnt.get("short_ladder_runs", 0) + 1
            if cpu_s > 0.5:
                res["viol"].append({"what": "CPU time explodes on a text input of a few dozen characters", "mech": "resources.cpu",
                                    "detail": {"case": label, "input_len": len(t_s), "cpu_seconds": round(cpu_s, 3), "repeated_token_chars": n_short}})
                cnt["cases"] = 1
                cnt["crafted_cases"] = 1
                res["sets"]["crafted"] = [c]
                res["nontrivial"] = True
                res["sig"] = ("crafted", c, case["r"])
                res["sample"] = {"crafted": c, "outcome": "short ladder exceeded"}
                return res
        t_small, f_small = make(small)
        ctx.mem.begin()
        call(f_small)
        cpu_small = ctx.mem.cpu()
        text, fn = make(big)
        in_len = len(text)
        label = f"crafted:text-repeat:{target}:{tok!r}"
        ctx.mem.begin()
        o = call(fn)
        cpu_big = ctx.mem.cpu()
        cnt["growth_ratio_checks"] = 1
        if cpu_big > 2.0 and cpu_big > 9 * max(cpu_small, 0.05):
            res["viol"].append({"what": "CPU time grows faster than linearly with the length of a text input", "mech": "resources.cpu",
                                "detail": {"case": label, "cpu_seconds_20k": round(cpu_small, 3), "cpu_seconds_80k": round(cpu_big, 3)}})
        res["sets"]["text_repeat_targets"] = [target]
    elif c == "qcow2-ext-wrap":
        # two fields off at once: a header extension whose length wraps the 8-byte rounding to (almost) nothing, in an image
        # whose backing-file-name offset no longer bounds the extension area
        from dissect.hypervisor.disk.qcow2 import QCow2

        view = wq.make_view(rng, size=8 * 512, cluster_bits=9, kinds="NNNNNNNN", extl2=False, tag=1)
        img, _, meta = wq.build(rng, cluster_bits=9, size=8 * 512, views=[view], placement="seq", header_length=rng.choice([104, 112]),
                                extensions=[wq.extension(rng.choice([0x6803F857, 0x12345678, 0xE2792ACA]), b"x" * 8)], rand_info=False)
        raw = bytearray(img.to_bytes())
        hl = struct.unpack_from(">I", raw, 100)[0]
        struct.pack_into(">I", raw, hl + 4, rng.choice([0xFFFFFFF1, 0xFFFFFFF4, 0xFFFFFFF8, 0xFFFFFFF9, 0xFFFFFFFF, 0x80000000, 0xFFFFFFF0]))
        struct.pack_into(">Q", raw, 8, rng.choice([1 << 32, (1 << 32) + 512, 1 << 40, (1 << 63) - 1, 0]))
        struct.pack_into(">I", raw, 16, rng.choice([0, 8, 1023]))
        in_len = len(raw)
        ctx.mem.begin()
        o = call(lambda: QCow2(io.BytesIO(bytes(raw)), backing_file=-1 if False else None).read(512))
    elif c == "keysafe-deep-pair":
        # hundreds of pair locators nested in one another around a large innermost data member: nesting is either refused or
        # costs no more than the text is long - not depth x length
        import base64
        from urllib.parse import quote

        from dissect.hypervisor.descriptor.vmx import VMX

        depth = rng.choice([40, 150, 400, 700])
        cd = ":".join(["pass2key=PBKDF2-HMAC-SHA-1", "cipher=AES-256", "rounds=1000", "salt=" + quote(base64.b64encode(b"0123456789abcdef").decode(), safe="")])
        locator = "phrase/" + quote("demo", safe="") + "/" + quote(cd, safe="")
        small = quote(base64.b64encode(bytes(48)).decode(), safe="")
        big = quote(base64.b64encode(b"\xa5" * rng.choice([15_000, 30_000, 45_000])).decode(), safe="")
        for level in range(depth):
            locator = f"pair/({locator},HMAC-SHA-1,{big if level == 0 else small})"
        text = f'encryption.keySafe = "vmware:key/list/({locator})"\nencryption.data = "AAAA"\n'
        in_len = len(text)
        label = f"crafted:keysafe-deep-pair:{depth}"
        ctx.mem.begin()
        o = call(lambda: VMX.parse(text).unlock_with_phrase("demo"))
    elif c == "qcow2-snap-shared-l1":
        # a snapshot table of hundreds of entries that all name the same, large L1 table: listing the snapshots costs what the
        # table is long, not entries x L1 size
        from dissect.hypervisor.disk.qcow2 import QCow2

        view = wq.make_view(rng, size=8 * 512, cluster_bits=9, kinds="NNNNNNNN", extl2=False, tag=1)
        img, _, meta = wq.build(rng, cluster_bits=9, size=8 * 512, views=[view], placement="seq")
        raw = bytearray(img.to_bytes())
        l1_entries = rng.choice([1 << 15, 1 << 16, 1 << 17])
        l1_off = -(-len(raw) // 512) * 512
        raw += bytes(8 * l1_entries)
        nsn = rng.choice([60, 240, 500])
        tab_off = len(raw)
        for j in range(nsn):
            ent = struct.pack(">QIHHIIQII", l1_off, l1_entries, 1, 1, 0, 0, 0, 0, 0) + b"1" + b"s"
            raw += ent + bytes((-len(ent)) % 8)
        struct.pack_into(">I", raw, 60, nsn)
        struct.pack_into(">Q", raw, 64, tab_off)
        in_len = len(raw)
        label = f"crafted:qcow2-snap-shared-l1:{nsn}x{l1_entries}"
        ctx.mem.begin()
        o = call(lambda: [len(s_.id_str) for s_ in QCow2(io.BytesIO(bytes(raw))).snapshots])
    elif c == "qcow2-snap-zero-table":
        from dissect.hypervisor.disk.qcow2 import QCow2

        view = wq.make_view(rng, size=8 * 512, cluster_bits=9, kinds="NNNNNNNN", extl2=False, tag=1)
        img, _, meta = wq.build(rng, cluster_bits=9, size=8 * 512, views=[view], placement="seq")
        raw = bytearray(img.to_bytes())
        raw += b"\0" * (1 << 20)  # a megabyte of zeros read as an endless run of empty snapshot entries
        struct.pack_into(">I", raw, 60, 0xFFFFFFFF)
        struct.pack_into(">Q", raw, 64, len(raw) - (1 << 20))
        in_len = len(raw)
        ctx.mem.begin()
        o = call(lambda: len(QCow2(io.BytesIO(bytes(raw))).snapshots))
    else:
        raise ValueError(c)
    crafted_budget = int(min(2.5e5 + 100 * in_len + 8 * REQ, 3e7))
    if c == "keysafe-deep-pair":
        # up to the nesting limit (16 levels) every level legitimately scans its members again, character by character
        crafted_budget = int(min(2.5e5 + 300 * in_len, 3e7))
    if ctx.steps.steps > crafted_budget:
        res["viol"].append({"what": "line events exceed the budget for this input", "mech": "non-termination",
                            "detail": {"case": label, "steps": ctx.steps.steps, "budget": crafted_budget, "input_len": in_len}})
    _judge(ctx, res, o, label, in_len)
    cnt["cases"] = 1
    cnt["crafted_cases"] = 1
    res["sets"]["crafted"] = [c]
    res["sets"]["crafted_outcomes"] = [f"{c}:{'returned' if o.ok else o.exc_name()}"]
    res["nontrivial"] = True
    res["sig"] = ("crafted", c, case["r"])
    res["sample"] = {"crafted": c, "outcome": o.brief()[:100], "steps": ctx.steps.steps}
    return res
