"""C16 - ESXi envelope and keystore: decrypt round-trips and is authenticated."""
from __future__ import annotations

import re

import hashlib
import io
import os
import struct
import sys
from pathlib import Path

from vf.core import as_handle, rng_for
from vf.monitors import call
from vf.writers import envelope as w

ID = "C16"
LEVEL = "fault_enumeration"
STEP_BUDGET = 4_000_000_000  # a case is hundreds of decrypt calls; termination is C11's subject
ANCHOR_FILES = ["dissect/hypervisor/util/envelope.py", "dissect/hypervisor/tools/envelope.py"]
RULE = (
    "An independent envelope writer (layout confirmed against the repository sample, which it re-creates byte for byte "
    "in its header) produces version-2 AES-256-GCM envelopes for payload lengths 0..3 MiB (..9 MiB thorough, crossing "
    "the 4 MiB decrypt chunk), paddings 0..12000 (the field is a plain 32-bit count), attribute areas that end exactly at / a few bytes before the end of the header block, attribute sets with every attribute type in any order (integers of "
    "all widths at their extremes, float32-exact floats, doubles, UTF-8 strings, byte strings), nonces of 8/12/16 "
    "bytes, associated data absent/short/long; keystores in mode NONE with arbitrary ids and data in five formatting "
    "styles. Positive oracle: decrypt(key, aad) == payload; the CLI (run in-process) writes exactly the payload and "
    "opens nothing else for writing; KeyStore key == independent PBKDF2, stable under re-parsing and formatting-only "
    "changes, and a function of the stored values only (several keystores sharing a keyId in one process). Fault "
    "enumeration: wrong key; single-byte alterations of every defined attribute byte (type, flag, name, value), of "
    "ciphertext bytes (all block/chunk boundaries + sampled), of every tag byte and of the tag-length field; altered / "
    "missing / extra associated data: decrypt must raise and return nothing. distinct = (attribute set, sizes, fault)."
)
ASSUMPTIONS = [
    "header bytes the reader does not model (struct padding, two reserved bytes per attribute, padding after the terminator, the stored size field) are not tampered: whether ESXi authenticates them is unknown",
    "pycryptodome/hashlib are the primitives on both sides of the oracle",
    "held means: held on the executions listed, not verified for all inputs",
]
MINIMA = {"quick": {"roundtrips": 80, "tamper_cases": 2500, "cli_runs": 12, "keystore_checks": 40}, "thorough": {"tamper_cases": 250000}}
MECH = "envelope.decrypt"


def plan(tier: str, seed: int) -> list[dict]:
    n = 90 if tier == "quick" else 5000
    cases = [{"k": "env", "i": i, "weight": 2} for i in range(n)]
    cases += [{"k": "big", "i": i, "weight": 30} for i in range(2 if tier == "quick" else 10)]
    cases += [{"k": "keystore", "i": i, "weight": 10} for i in range(8 if tier == "quick" else 60)]
    cases += [{"k": "cli", "i": i, "weight": 10} for i in range(12 if tier == "quick" else 80)]
    return cases


def gen_attrs(rng) -> list[tuple]:
    out = []
    used = set()
    for _ in range(rng.choice([0, 0, 1, 3, 8])):
        name = "x." + "".join(rng.choice("abcdefXYZ_.09") for _ in range(rng.randrange(1, 20)))
        if name in used:
            continue
        used.add(name)
        t = rng.randrange(1, 13)
        flag = rng.choice([0, 0, 1, 0x80, 0xFF])
        if t in (w.T_U8, w.T_U16, w.T_U32, w.T_U64):
            bits = {w.T_U8: 8, w.T_U16: 16, w.T_U32: 32, w.T_U64: 64}[t]
            v = rng.choice([0, 1, (1 << bits) - 1, rng.getrandbits(bits)])
        elif t in (w.T_I8, w.T_I16, w.T_I32, w.T_I64):
            bits = {w.T_I8: 8, w.T_I16: 16, w.T_I32: 32, w.T_I64: 64}[t]
            v = rng.choice([0, -1, (1 << (bits - 1)) - 1, -(1 << (bits - 1)), rng.getrandbits(bits) - (1 << (bits - 1))])
        elif t == w.T_FLOAT:
            v = rng.choice([0.0, 1.5, -0.25, 1024.0, 3.0e10, struct.unpack("<f", struct.pack("<f", rng.uniform(-1e6, 1e6)))[0]])
        elif t == w.T_DOUBLE:
            v = rng.choice([0.0, -0.0, 1.5, 1e300, 5e-324, rng.uniform(-1e9, 1e9)])
        elif t == w.T_STRING:
            v = "".join(rng.choice("abc XYZ-019é日😀") for _ in range(rng.randrange(0, 40)))
        else:
            v = bytes(rng.randrange(256) for _ in range(rng.randrange(0, 60)))
        out.append((name, t, flag, v))
    return out


def _decrypt(raw, key, aad):
    from dissect.hypervisor.util.envelope import Envelope

    return Envelope(as_handle(raw)).decrypt(key, aad=aad)


def run(case: dict, ctx) -> dict:
    res = {"cnt": {}, "viol": [], "sets": {}}
    cnt = res["cnt"]
    rng = rng_for(ctx.seed, ID, case["k"], case["i"])
    k = case["k"]
    if k == "keystore":
        return _keystore(rng, ctx, res)
    if k == "cli":
        return _cli(rng, ctx, res)
    key = bytes(rng.randrange(256) for _ in range(32))
    iv = bytes(rng.randrange(256) for _ in range(rng.choice([12, 12, 12, 16, 8])))
    if k == "big":
        plen = rng.choice([(4 << 20) - 4096 - rng.randrange(0, 3), (4 << 20) + rng.randrange(0, 5000), (8 << 20) + 17]) if ctx.tier == "thorough" else rng.choice([(4 << 20) - 4096 - 1, (4 << 20) + 5])
        payload = hashlib.shake_128(bytes([case["i"]])).digest(1 << 16) * (plen // (1 << 16) + 1)
        payload = payload[:plen]
    else:
        plen = rng.choice([0, 1, 15, 16, 4095, 4096, 4097, rng.randrange(0, 70000), rng.randrange(0, 3 << 20) if rng.random() < 0.1 else rng.randrange(0, 9000)])
        payload = bytes(rng.getrandbits(8) for _ in range(min(plen, 4096))) * (plen // 4096 + 1)
        payload = payload[:plen]
    # the footer's padding field is a plain 32-bit count: writers that always pad store 4096 for aligned payloads
    padding = rng.choice([0, 1, 4095, rng.randrange(0, 4096), (-plen) % 4096, 4096 - plen % 4096, 4096, rng.randrange(4096, 12000)])
    fill = rng.choice([None, None, None, 0, 0, 1, 3, 4])
    aad = rng.choice([None, b"ESXConfiguration", b"", b"x", bytes(rng.randrange(256) for _ in range(rng.randrange(1, 300)))])
    extra = gen_attrs(rng)
    raw, meta = w.build(rng, payload=payload, key=key, iv=iv, extra_attrs=extra, aad=aad, padding=padding, order=rng.choice(["sample", "shuffle"]), fill=fill,
                        key_info="".join(rng.choice("0123456789abcdef-") for _ in range(rng.randrange(1, 40))))
    o = call(_decrypt, raw, key, aad)
    cnt["roundtrips"] = 1
    if o.ok and case["i"] % 2 == 0:
        # one Envelope object, several calls: a rejected attempt (wrong associated data / key) first, then the right one, twice
        from dissect.hypervisor.util.envelope import Envelope

        env_ = Envelope(io.BytesIO(raw))
        call(env_.decrypt, key, aad=(aad or b"") + b"x")
        call(env_.decrypt, bytes(32))
        for nth in (1, 2):
            o_n = call(env_.decrypt, key, aad=aad)
            cnt["same_object_decrypts"] = cnt.get("same_object_decrypts", 0) + 1
            if not o_n.ok or o_n.value != payload:
                res["viol"].append({"what": f"decrypt #{nth} on an Envelope object that was used before does not return the payload", "mech": MECH,
                                    "detail": {"outcome": o_n.brief(), "got_len": len(o_n.value) if o_n.ok else None, "payload_len": plen}})
                break
    if not o.ok:
        res["viol"].append({"what": f"decrypt of a well-formed envelope failed: {o.brief()}", "mech": MECH,
                            "detail": {"payload_len": plen, "padding": padding, "attrs": [(n, t) for n, t, _, _ in extra], "aad_len": None if aad is None else len(aad), "tb": o.tb}})
        return res
    if o.value != payload:
        res["viol"].append({"what": "decrypted payload differs from the original", "mech": MECH,
                            "detail": {"payload_len": plen, "got_len": len(o.value), "padding": padding}})
        return res
    # ---- faults
    def expect_fail(what, raw_, key_, aad_):
        cnt["tamper_cases"] = cnt.get("tamper_cases", 0) + 1
        ot = call(_decrypt, raw_, key_, aad_)
        if ot.ok:
            res["viol"].append({"what": f"decrypt returned plaintext although {what}", "mech": "envelope.auth",
                                "detail": {"fault": what, "payload_len": plen, "returned_len": len(ot.value), "returned_equals_payload": ot.value == payload}})
            return False
        return True

    wk = bytearray(key)
    wk[rng.randrange(32)] ^= 1 << rng.randrange(8)
    expect_fail("the key is wrong", raw, bytes(wk), aad)
    if aad:
        a2 = bytearray(aad)
        a2[rng.randrange(len(a2))] ^= 0x01
        expect_fail("the associated data was altered", raw, key, bytes(a2))
        expect_fail("the associated data is missing", raw, key, None)
    expect_fail("extra associated data was supplied", raw, key, (aad or b"") + b"\x00")
    classes = set()
    # attribute bytes
    quick = ctx.tier == "quick"
    for name, (roff, rlen, voff, vlen) in meta["attr_index"].items():
        positions = [roff, roff + 1]  # type, flag
        nlen = len(name.encode())
        positions += [roff + 4 + rng.randrange(nlen)] if quick else list(range(roff + 4, roff + 4 + nlen))
        if vlen:
            vp = list(range(voff, voff + vlen))
            positions += (rng.sample(vp, min(3, len(vp))) + [vp[0], vp[-1]]) if quick else vp
        for pos in sorted(set(positions)):
            if res["viol"]:
                break
            b = bytearray(raw)
            b[pos] ^= rng.randrange(1, 256)
            part = "type" if pos == roff else "flag" if pos == roff + 1 else "name" if pos < roff + 4 + nlen else "value"
            classes.add(f"attr-{part}")
            expect_fail(f"header attribute {name!r} ({part} byte at {pos}) was altered", bytes(b), key, aad)
    # ciphertext
    co, cl = meta["ct_off"], meta["ct_len"]
    cpos = {co, co + cl - 1, co + cl - 512, co + cl - 4096, co + cl - 4097, co + plen, max(co, co + plen - 1)}
    for b_ in ((4 << 20), (8 << 20)):
        if cl > b_:
            cpos |= {co + b_ - 1, co + b_}
    for _ in range(6 if quick else 40):
        cpos.add(co + rng.randrange(cl))
    for pos in sorted(p for p in cpos if co <= p < co + cl):
        if res["viol"]:
            break
        b = bytearray(raw)
        b[pos] ^= 1 << rng.randrange(8)
        classes.add("ciphertext")
        expect_fail(f"ciphertext byte {pos - co} of {cl} was altered", bytes(b), key, aad)
    # tag and tag length
    for j in range(16):
        if res["viol"]:
            break
        b = bytearray(raw)
        b[meta["tag_off"] + j] ^= 1 << rng.randrange(8)
        classes.add("tag")
        expect_fail(f"authentication tag byte {j} was altered", bytes(b), key, aad)
    for tl in (0, 1, 8, 15):
        if res["viol"]:
            break
        b = bytearray(raw)
        b[meta["aead_off"] + 4088 : meta["aead_off"] + 4092] = struct.pack("<I", tl)
        classes.add("tag-length")
        expect_fail(f"the authentication tag was truncated to {tl} bytes", bytes(b), key, aad)
    res["sets"]["fault_classes"] = sorted(classes)
    res["sets"]["attribute_types"] = sorted({t for _, t, _, _ in extra})
    res["sets"]["nonce_lengths"] = [len(iv)]
    cnt["crosses_4MiB_chunk"] = int(cl > (4 << 20))
    res["nontrivial"] = True
    res["sig"] = (case["k"], case["i"], plen, padding, len(extra))
    res["sample"] = {"payload_len": plen, "padding": padding, "attributes": [(n, t, f) for n, t, f, _ in extra][:5], "aad_len": None if aad is None else len(aad),
                     "nonce_len": len(iv), "faults": cnt.get("tamper_cases", 0)}
    return res


def _keystore(rng, ctx, res):
    from dissect.hypervisor.util.envelope import KeyStore

    cnt = res["cnt"]
    key_id = bytes(rng.randrange(256) for _ in range(16))
    variants = []
    for j in range(3):
        d1 = bytes(rng.randrange(256) for _ in range(rng.choice([16, 16, 1, 32, 64])))
        d2 = bytes(rng.randrange(256) for _ in range(rng.choice([16, 16, 1, 32])))
        variants.append((d1, d2))
    import uuid

    for d1, d2 in variants:
        want = w.derive(d1, d2)
        keys = []
        for style in range(5):
            text = w.keystore_text(rng, key_id=key_id, data1=d1, data2=d2, style=style, extra={"other.nested.key": "v"} if style == 1 else None, superseded_first=rng.random() < 0.35)
            o = call(KeyStore.from_text, text)
            cnt["keystore_checks"] = cnt.get("keystore_checks", 0) + 1
            if not o.ok:
                res["viol"].append({"what": f"keystore in mode NONE failed to parse: {o.brief()}", "mech": "keystore", "detail": {"style": style, "tb": o.tb}})
                return res
            ks = o.value
            keys.append(ks.key)
            if ks.key != want:
                res["viol"].append({"what": "derived key is not PBKDF2(data1 + salt, data2) of the stored values", "mech": "keystore",
                                    "detail": {"style": style, "same_key_id_as_previous_keystore": True, "got": ks.key.hex()[:16], "exp": want.hex()[:16]}})
                return res
            if ks.id != str(uuid.UUID(bytes=key_id)):
                res["viol"].append({"what": "keystore id differs from the stored keyId", "mech": "keystore", "detail": {"got": ks.id}})
                return res
    # a keystore whose ConfigEncData lacks (or misspells) one of keyId / data1 / data2 stores no key: it fails on its own
    # values, whatever complete keystores were parsed before it in this process
    good = w.keystore_text(rng, key_id=key_id, data1=variants[0][0], data2=variants[0][1], style=0)
    for drop in ("keyId", "data1", "data2"):
        for how in ("absent", "misspelt"):
            bad = re.sub(rf"{drop}=[^:\"]*:?", "" if how == "absent" else lambda m: m.group(0).replace(drop, drop + "x"), good, count=1)
            if bad == good:
                continue
            ob = call(lambda: KeyStore.from_text(bad).key)
            cnt["incomplete_keystore_checks"] = cnt.get("incomplete_keystore_checks", 0) + 1
            if ob.ok:
                res["viol"].append({"what": f"a keystore with {drop} {how} yielded a key (not a function of its own stored values)", "mech": "keystore",
                                    "detail": {"field": drop, "how": how, "key": ob.value.hex()[:16] if isinstance(ob.value, bytes) else repr(ob.value)[:40]}})
                return res
    res["nontrivial"] = True
    res["sig"] = ("keystore", key_id.hex())
    res["sample"] = {"keystore_variants_sharing_one_keyId": len(variants), "styles": 5}
    return res


def _cli(rng, ctx, res):
    from dissect.hypervisor.tools import envelope as tool

    cnt = res["cnt"]
    d = Path(ctx.tmpdir())
    d1 = bytes(rng.randrange(256) for _ in range(16))
    d2 = bytes(rng.randrange(256) for _ in range(16))
    key = w.derive(d1, d2)
    plen = rng.choice([0, 1, 4096, rng.randrange(0, 200000)])
    payload = hashlib.shake_128(bytes([rng.randrange(256)])).digest(plen)
    raw, meta = w.build(rng, payload=payload, key=key, iv=bytes(rng.randrange(256) for _ in range(12)), extra_attrs=gen_attrs(rng), aad=None,
                        padding=rng.randrange(0, 4096))
    env = d / rng.choice(["local.tgz.ve", "state with space.ve", "é.ve"])
    ks = d / "encryption.info"
    out = d / rng.choice(["out.bin", "local.tgz", "o ut"])
    env.write_bytes(raw)
    ks.write_text(w.keystore_text(rng, key_id=bytes(16), data1=d1, data2=d2, style=rng.randrange(5), superseded_first=rng.random() < 0.35))
    before = {p.name: hashlib.sha256(p.read_bytes()).hexdigest() for p in d.iterdir()}
    ctx.audit.allow_write_paths = {str(out)}
    argv = sys.argv
    sys.argv = ["envelope-decrypt", str(env), "-ks", str(ks), "-o", str(out)]
    try:
        o = call(tool.main)
    finally:
        sys.argv = argv
    cnt["cli_runs"] = 1
    if not o.ok or o.value != 0:
        res["viol"].append({"what": f"envelope-decrypt failed on a valid envelope/keystore pair: {o.brief()}", "mech": "envelope.cli", "detail": {"tb": o.tb}})
        return res
    if not out.exists() or out.read_bytes() != payload:
        res["viol"].append({"what": "envelope-decrypt did not write exactly the payload", "mech": "envelope.cli",
                            "detail": {"exists": out.exists(), "len": out.stat().st_size if out.exists() else None, "payload_len": plen}})
    after = {p.name: hashlib.sha256(p.read_bytes()).hexdigest() for p in d.iterdir() if p != out}
    if after != before:
        res["viol"].append({"what": "envelope-decrypt changed or created a file other than its --output", "mech": "c09.write",
                            "detail": {"changed": sorted(set(after.items()) ^ set(before.items()))[:4]}})
    if ctx.audit.writes:
        res["viol"].append({"what": "envelope-decrypt opened something other than --output for writing", "mech": "c09.write", "detail": {"events": ctx.audit.writes[:3]}})
    # the tool on altered envelopes / a foreign keystore: it must end in an error and never leave the payload (or a variant) behind
    aead_off = meta["aead_off"]
    spots = {"ciphertext-first": meta["ct_off"], "ciphertext-last": meta["ct_off"] + meta["ct_len"] - 1, "tag-first": meta["tag_off"], "tag-last": meta["tag_off"] + 15,
             "attribute-value": meta["attr_index"]["vmware.iv"][2] if "vmware.iv" in meta["attr_index"] else 520}
    if plen > 2:
        spots["ciphertext-middle"] = meta["ct_off"] + rng.randrange(1, plen)
    for label, pos in spots.items():
        bad = bytearray(raw)
        bad[pos] ^= rng.choice([1, 0x80, 0xFF])
        env.write_bytes(bytes(bad))
        out2 = d / "tampered-out.bin"
        if out2.exists():
            out2.unlink()
        ctx.audit.allow_write_paths = {str(out2)}
        sys.argv = ["envelope-decrypt", str(env), "-ks", str(ks), "-o", str(out2)]
        try:
            try:
                o2 = call(tool.main)
                code = o2.value if o2.ok else None
            except SystemExit as e:
                o2, code = None, e.code
        finally:
            sys.argv = argv
        cnt["cli_tamper_runs"] = cnt.get("cli_tamper_runs", 0) + 1
        wrote = out2.read_bytes() if out2.exists() else None
        ended_ok = o2 is not None and o2.ok and code in (0, None)
        leaked = wrote is not None and len(wrote) > 0 and (wrote == payload or (plen >= 16 and (wrote[:16] == payload[:16] or wrote[-16:] == payload[-16:])))
        if ended_ok or leaked:
            res["viol"].append({"what": "envelope-decrypt accepted an altered envelope" if ended_ok else "envelope-decrypt left plaintext behind for an altered envelope",
                                "mech": "envelope.auth", "detail": {"altered": label, "offset": pos, "exit": repr(code), "bytes_written": None if wrote is None else len(wrote)}})
            break
    res["nontrivial"] = True
    res["sig"] = ("cli", plen)
    res["sample"] = {"cli": True, "payload_len": plen, "output": out.name}
    return res
