"""C12 - Foreign or unsupported inputs are refused, not misread."""
from __future__ import annotations

import io
import struct
from pathlib import Path

from vf import corpus
from vf.core import SECTOR, as_handle, rng_for
from vf.monitors import call
from vf.writers import envelope as wenv
from vf.writers import hds as whds
from vf.writers import hyperv as whv
from vf.writers import qcow2 as wq
from vf.writers import vhdx as wvhdx
from vf.writers import vmdk as wvmdk
from vf.writers import vmxcrypt as wvx

ID = "C12"
LEVEL = "fault_enumeration"
STEP_BUDGET = 20_000_000
ANCHOR_FILES = [f"dissect/hypervisor/{m}.py" for m in ("disk/qcow2", "disk/vhdx", "disk/vdi", "disk/hdd", "disk/vmdk", "descriptor/hyperv", "util/envelope", "descriptor/vmx")]
RULE = (
    "Fault enumeration per gate on otherwise valid writer images: every single-bit flip of each magic/signature (QCOW2 "
    "magic; VHDX 'vhdxfile', 'head', 'regi', 'metadata' - redundant copies flipped together; VDI signature; both HDS "
    "signatures; KDMV/COWD/SE-sparse magic through SparseDisk and through descriptor-declared sparse extents; Hyper-V "
    "header (both copies), replay-log, object-table and key-table signatures; envelope magic); versions: all of 0..255, "
    "powers of two +-1, 2^32-1 and random others per gate (QCOW2 not in {2,3}, Hyper-V != 0x400, envelope != 2, AEAD "
    "footer != 1); QCOW2 cluster_bits 0..63 and large, extended L2 with sub-clusters < 512 bytes, crypt_method != 0, "
    "zstd compression without the module, data-file bit without data_file, backing name without backing_file; VHDX "
    "missing BAT / metadata region, each required metadata item missing, foreign parent-locator type; Parallels image "
    "types outside {Plain, Compressed} (case variants, prefixes, substrings, empty), missing DiskDescriptor.xml; "
    "envelope missing each required attribute, foreign cipher names; keystore mode absent / != NONE; key safes with a "
    "foreign identifier, each unimplemented locator kind, unknown MAC / cipher / KDF names. A gate holds when the "
    "constructor / open / unlock call raises (any exception; the type is recorded, not judged); each gate has a "
    "positive control (the unmutated input opens). distinct = (gate, value)."
    " Before every foreign input its valid twin (the positive control) is opened in the same process, so a refusal cannot depend on being the first thing parsed. Gates added for mandatory-feature flags: unknown QCOW2 incompatible bits and compression types, unknown required VHDX regions / metadata items, the stream-optimized footer magic, active-copy-only signatures."
)
ASSUMPTIONS = [
    "VMDK(fh) with an unknown magic is by design a flat extent; that path is excluded",
    "unknown QCOW2 incompatible-feature bits and compression types >= 2 are probed and reported but do not decide the verdict (not in the statement's list)",
    "held means: held on the values enumerated",
]
MINIMA = {"quick": {"gate_cases": 1500, "refusals": 1500, "positive_controls": 25}, "thorough": {"gate_cases": 2500}}
MECH = "gate"
_CACHE = {}


def inputs(seed: int):
    if seed not in _CACHE:
        _CACHE[seed] = {i.fmt: i for i in corpus.build_inputs(rng_for(seed, "corpus"))}
    return _CACHE[seed]


def version_values(rng, accepted: set, bits: int = 32, n_rand: int = 24) -> list[int]:
    vals = set(range(0, 256))
    for p in range(bits):
        for d in (-1, 0, 1):
            vals.add(((1 << p) + d) & ((1 << bits) - 1))
    vals.add((1 << bits) - 1)
    for _ in range(n_rand):
        vals.add(rng.getrandbits(bits))
    return sorted(v for v in vals if v not in accepted)


def string_variants(supported: list[str]) -> list[str]:
    out = set()
    for s in supported:
        out |= {s.lower(), s.upper(), s.swapcase(), s + "2", "x" + s, s + " ", " " + s, s[:-1], s[1:], s[0], s[-1], s[1:-1], s * 2}
        for i in range(1, len(s)):
            out.add(s[:i])
            out.add(s[i:])
    out |= {"", "Expanding", "Sparse", "Raw", "None", "0", "Qcow2"}
    return sorted(v for v in out if v not in supported)


# gate name -> number of values (resolved lazily so that plan() stays cheap and deterministic)
def gate_table(rng):
    g = []
    add = g.append
    add(("qcow2.magic", [("bit", b) for b in range(32)]))
    add(("qcow2.version", version_values(rng, {2, 3})))
    add(("qcow2.cluster_bits", [v for v in list(range(0, 64)) + [64, 255, 256, 1 << 16, (1 << 32) - 1] if not 9 <= v <= 21]))
    add(("qcow2.extl2-small-subcluster", [9, 10, 11, 12, 13]))
    add(("qcow2.crypt_method", [1, 2, 3, 255, 1 << 16, (1 << 32) - 1]))
    add(("qcow2.zstd-without-module", [1]))
    # incompatible feature bits the reader does not know (0..4 are defined) and compression types other than zlib/zstd
    add(("qcow2.unknown-incompatible-feature", list(range(5, 64))))
    add(("qcow2.unknown-compression-type", [2, 3, 4, 0x7F, 0x80, 0xFF]))
    add(("qcow2.data-file-missing", ["named", "unnamed"]))
    add(("qcow2.backing-file-missing", [0]))
    add(("vhdx.fileid", [("bit", b) for b in range(64)]))
    add(("vhdx.head", [("bit", b) for b in range(32)]))
    add(("vhdx.head-active-only", [(w, b) for w in (1, 2, "tie") for b in range(0, 32, 3)]))
    add(("vhdx.regi", [("bit", b) for b in range(32)]))
    add(("vhdx.metadata", [("bit", b) for b in range(64)]))
    add(("vhdx.missing-region", ["bat", "metadata"]))
    add(("vhdx.missing-item", [0, 1, 2, 3, 4]))
    add(("vhdx.foreign-locator-type", [0, 1, 2, 3]))
    add(("vhdx.parent-of-unnamed-stream", ["bytesio", "proxy"]))
    # entries of unknown type that are marked required (region table: Required; metadata table: IsRequired, with and
    # without the IsUser / IsVirtualDisk bits): the format demands a refusal; the same entries not marked required are the control
    add(("vhdx.unknown-required-region", [0, 1, 2, 3]))
    add(("vhdx.unknown-required-item", [4, 5, 6, 7]))
    add(("vdi.signature", [("bit", b) for b in range(32)]))
    add(("hds.signature-v1", [("bit", b) for b in range(128)]))
    add(("hds.signature-v2", [("bit", b) for b in range(128)]))
    for kind in ("kdmv", "cowd", "sesparse"):
        add((f"vmdk.{kind}.magic", [("bit", b) for b in range(64 if kind == "sesparse" else 32)]))
        add((f"vmdk.{kind}.magic-via-descriptor", [("bit", b) for b in range(0, 32, 3)]))
    # stream-optimized extents carry a second header (the footer) that replaces the first: its magic is validated too
    # a delta disk (parentCID set) that does not say where its parent is must not be opened as if it had none
    add(("vmdk.delta.no-parent-hint", [(how, cid) for how in ("descriptor", "embedded") for cid in ("11111111", "fffffffe", "00000000")]))
    add(("vmdk.stream.footer-magic", [("bit", b) for b in range(32)]))
    add(("vmdk.stream.footer-magic-via-list", [("bit", b) for b in range(0, 32, 3)]))
    add(("hyperv.header-signature", [("bit", b) for b in range(32)]))
    add(("hyperv.active-header-signature-only", [(w, b) for w in (1, 2, "tie") for b in range(32)]))
    add(("hyperv.version", version_values(rng, {0x400})))
    add(("hyperv.replay-signature", [("bit", b) for b in range(32)]))
    add(("hyperv.objtable-signature", [("bit", b) for b in range(32)]))
    add(("hyperv.keytable-signature", [("bit", b) for b in range(16)]))
    # only a superseded generation of a key table (lower sequence number, listed behind the current one) has the wrong signature
    add(("hyperv.superseded-keytable-signature", [("bit", b) for b in range(16)]))
    # an object table that is reached through a link pointing backwards in the file (and what only it lists) is validated too
    add(("hyperv.backward-linked-objtable-signature", [("bit", b) for b in range(0, 32, 2)]))
    add(("envelope.magic", [("bit", b) for b in range(21 * 8)]))
    add(("envelope.version", version_values(rng, {2}, n_rand=8)))
    add(("envelope.aead-version", version_values(rng, {1}, n_rand=8)))
    add(("envelope.missing-attr", ["vmware.keyInfo", "vmware.cipherName", "vmware.keyHash"]))
    add(("envelope.cipher", string_variants(["AES-256-GCM"]) + ["AES-128-GCM", "AES-256-CBC", "CHACHA20"]))
    # keystore / VMX values pass through the dictionary syntax, which strips blanks and quotes around a value:
    # blank-padded variants are the same value there and are therefore not foreign
    nb = lambda vs: [v for v in vs if v == v.strip(' "')]  # noqa: E731
    add(("keystore.mode", [None] + nb(string_variants(["NONE"])) + ["TPM", "UserKeys"]))
    add(("keysafe.identifier", nb(string_variants(["vmware:key"]))[:40]))
    add(("keysafe.locator-kind", ["rawkey", "ldap", "script", "role", "fqid", "Phrase", "phras", "pairs", "list2", ""]))
    add(("keysafe.mac", string_variants(["HMAC-SHA-1", "HMAC-SHA-256"])[:60]))
    add(("keysafe.cipher", string_variants(["AES-256", "AES-128"])[:60]))
    add(("keysafe.kdf", string_variants(["PBKDF2-HMAC-SHA-1"])[:60]))
    # ... also when the unsupported pair is only the first of several and a later, supported pair would open with the passphrase
    add(("keysafe.mac-first-of-several", string_variants(["HMAC-SHA-1", "HMAC-SHA-256"])[:12]))
    add(("keysafe.cipher-first-of-several", string_variants(["AES-256", "AES-128"])[:12]))
    add(("keysafe.kdf-first-of-several", string_variants(["PBKDF2-HMAC-SHA-1"])[:12]))
    add(("hdd.image-type", string_variants(["Plain", "Compressed"])))
    add(("hdd.missing-descriptor", [0]))
    # ... also when it is not the opened snapshot's own image but one of its ancestors' that has the unsupported type
    add(("hdd.image-type-of-ancestor", [(pos, v) for pos in ("parent", "base") for v in string_variants(["Plain", "Compressed"])[:12]]))
    return g


# gates whose positive control depends on the variant (which header copy is active, named/unnamed data file)
CONTROL_VALUES = {
    "vhdx.head-active-only": [(1, 0), (2, 0), ("tie", 0)],
    "hyperv.active-header-signature-only": [(1, 0), (2, 0), ("tie", 0)],
    "qcow2.data-file-missing": ["named", "unnamed"],
    "vhdx.parent-of-unnamed-stream": ["bytesio"],
    "vmdk.delta.no-parent-hint": [("descriptor", None), ("embedded", None)],
}


def plan(tier: str, seed: int) -> list[dict]:
    rng = rng_for(seed, ID, "gates")
    cases = []
    for name, values in gate_table(rng):
        for j in range(len(CONTROL_VALUES.get(name, [None]))):
            cases.append({"gate": name, "vi": -1 - j})  # positive control(s)
        vals = list(range(len(values)))
        if tier == "quick" and len(vals) > 120:
            vals = sorted(rng.sample(vals, 120))
        for vi in vals:
            cases.append({"gate": name, "vi": vi})
    return cases


def _flip(raw: bytearray, off: int, bit: int) -> None:
    raw[off + bit // 8] ^= 1 << (bit % 8)


def run(case: dict, ctx) -> dict:
    res = {"cnt": {}, "viol": [], "sets": {}}
    cnt = res["cnt"]
    rng = rng_for(ctx.seed, ID, "gates")
    table = dict(gate_table(rng))
    gate = case["gate"]
    control = case["vi"] < 0
    value = CONTROL_VALUES.get(gate, [None])[-1 - case["vi"]] if control else table[gate][case["vi"]]
    r2 = rng_for(ctx.seed, ID, gate, case["vi"])
    if not control:
        # the valid twin is opened first in this very process: a refusal must not depend on the foreign input being the
        # first thing the process ever parsed (state shared between objects would let the earlier tables answer)
        cv = CONTROL_VALUES.get(gate, [None])
        warm = _apply(gate, cv[case["vi"] % len(cv)], True, ctx, rng_for(ctx.seed, ID, gate, "warm", case["vi"]))
        cnt["valid_twin_opened_first"] = int(warm.ok)
    o = _apply(gate, value, control, ctx, r2)
    if control:
        cnt["positive_controls"] = 1
        if not o.ok:
            # a gate that refuses everything proves nothing; this is a harness/writer problem, never a verdict
            raise AssertionError(f"positive control for gate {gate} does not open: {o.brief()}\n{o.tb}")
    else:
        cnt["gate_cases"] = 1
        if o.ok:
            res["viol"].append({"what": f"input outside the supported set was accepted at gate {gate}", "mech": MECH,
                                "detail": {"gate": gate, "value": repr(value)[:80], "returned": repr(o.value)[:120]}})
        else:
            cnt["refusals"] = 1
            res["sets"]["refusal_exception_per_gate"] = [f"{gate}:{o.exc_name()}"]
    res["sets"]["gates"] = [gate]
    res["nontrivial"] = True
    res["sig"] = (gate, case["vi"])
    res["sample"] = {"gate": gate, "value": "control (unmutated)" if control else repr(value)[:60], "outcome": o.brief()[:100]}
    return res


def _apply(gate: str, value, control: bool, ctx, rng):
    inps = inputs(ctx.seed)
    fam, _, what = gate.partition(".")
    if fam == "qcow2":
        from dissect.hypervisor.disk.qcow2 import ALLOW_NO_BACKING_FILE, QCow2

        raw = bytearray(inps["qcow2"].raw)
        backing = ALLOW_NO_BACKING_FILE
        data_file = None
        if what == "magic" and not control:
            _flip(raw, 0, value[1])
        elif what == "version" and not control:
            struct.pack_into(">I", raw, 4, value)
        elif what == "cluster_bits" and not control:
            struct.pack_into(">I", raw, 20, value)
        elif what == "crypt_method" and not control:
            struct.pack_into(">I", raw, 32, value)
        elif what == "extl2-small-subcluster":
            cb = 14 if control else value
            cs = 1 << cb
            view = wq.make_view(rng, size=4 * cs, cluster_bits=cb, kinds="NNNN" if not control else "NSNS", extl2=control, tag=1)
            img, _, _ = wq.build(rng, cluster_bits=cb, size=4 * cs, views=[view], extl2=control, placement="seq")
            raw = bytearray(img.to_bytes())
            if not control:
                struct.pack_into(">Q", raw, 72, struct.unpack_from(">Q", raw, 72)[0] | (1 << 4))
            backing = None
        elif what == "zstd-without-module":
            from dissect.hypervisor.disk import qcow2 as q

            if q.HAS_ZSTD:
                return call(lambda: (_ for _ in ()).throw(RuntimeError("zstd module present: gate not applicable")))
            if not control:
                struct.pack_into(">Q", raw, 72, struct.unpack_from(">Q", raw, 72)[0] | (1 << 3))
                raw[104] = 1
        elif what == "unknown-incompatible-feature":
            if not control:
                struct.pack_into(">Q", raw, 72, struct.unpack_from(">Q", raw, 72)[0] | (1 << value))
        elif what == "unknown-compression-type":
            view = wq.make_view(rng, size=6 * 4096, cluster_bits=12, kinds="NCNCNN", extl2=False, tag=1)
            img, _, _ = wq.build(rng, cluster_bits=12, size=6 * 4096, views=[view], placement="seq", header_length=112, rand_info=False)
            raw = bytearray(img.to_bytes())
            assert struct.unpack_from(">I", raw, 100)[0] >= 105
            if not control:
                struct.pack_into(">Q", raw, 72, struct.unpack_from(">Q", raw, 72)[0] | (1 << 3))
                raw[104] = value
            backing = None
        elif what == "data-file-missing":
            view = wq.make_view(rng, size=4 * 512, cluster_bits=9, kinds="NNNN", extl2=False, tag=1)
            img, dataf, _ = wq.build(rng, cluster_bits=9, size=4 * 512, views=[view], external_data=True,
                                   data_file_name=b"d.raw" if value == "named" else None, placement="seq")
            raw = bytearray(img.to_bytes())
            data_file = as_handle(dataf.to_bytes()) if control else None
            backing = None
        elif what == "backing-file-missing":
            backing = ALLOW_NO_BACKING_FILE if control else None
        return call(lambda: QCow2(io.BytesIO(bytes(raw)), data_file=data_file, backing_file=backing).read(512))
    if fam == "vhdx":
        from dissect.hypervisor.disk.vhdx import VHDX

        inp = inps["vhdx"]
        raw = bytearray(corpus.get_raw(inp))
        MBb = 1 << 20
        if what == "fileid" and not control:
            _flip(raw, 0, value[1])
        elif what == "head" and not control:
            _flip(raw, 0x10000, value[1])
            _flip(raw, 0x20000, value[1])
        elif what == "head-active-only":
            # only the copy the reader must use (higher sequence number, second on a tie) carries the wrong signature
            s1, s2 = {1: (9, 4), 2: (4, 9), "tie": (6, 6)}[value[0]]
            struct.pack_into("<Q", raw, 0x10000 + 8, s1)
            struct.pack_into("<Q", raw, 0x20000 + 8, s2)
            if not control:
                _flip(raw, 0x10000 if value[0] == 1 else 0x20000, value[1])
        elif what == "parent-of-unnamed-stream":
            # a differencing disk whose parent cannot be looked up because the stream has no name (control: not differencing)
            loc = wvhdx.parent_locator([("relative_path", ".\\p.vhdx"), ("parent_linkage", "{83ed0ec1-24c8-49a6-a959-5e4bd1288015}")])
            sf, _, _ = wvhdx.build(rng, block_size=MBb, sector_size=512, nblocks=2, states=[6, 0], tag=2, has_parent=not control, locator=None if control else loc,
                                   checksums=False)
            fh = io.BytesIO(sf.to_bytes()) if value == "bytesio" or control else as_handle(sf, name=False)
            return call(lambda: VHDX(fh).read(512))
        elif what in ("unknown-required-region", "unknown-required-item"):
            g = bytes(rng.randrange(256) for _ in range(16))
            if what == "unknown-required-region":
                kw = {"extra_regions": [(g, 0 if control else 1)] + [(bytes(rng.randrange(256) for _ in range(16)), 0) for _ in range(0 if control else value)]}
            else:
                # the item's data may be of any length, also empty (offset and length zero are a valid "present but empty" item)
                kw = {"extra_items": [(g, rng.choice([b"opaque payload", b"", b"", b"x"]), 3 if control else value)]}
            sf, _, _ = wvhdx.build(rng, block_size=MBb, sector_size=512, nblocks=2, states=[6, 0], tag=1, checksums=False, **kw)
            fh = as_handle(sf)
            return call(lambda: VHDX(fh).read(512))
        elif what == "regi" and not control:
            _flip(raw, 0x30000, value[1])
            _flip(raw, 0x40000, value[1])
        elif what == "metadata" and not control:
            _flip(raw, 2 * MBb, value[1])
        elif what == "missing-region" and not control:
            want = wvhdx.BAT_GUID if value == "bat" else wvhdx.META_GUID
            for rb in (0x30000, 0x40000):
                for i in range(2):
                    o_ = rb + 16 + 32 * i
                    if bytes(raw[o_ : o_ + 16]) == want:
                        # the entry becomes a region of unknown type that is not required: the wanted region is simply absent
                        raw[o_] ^= 0xFF
                        struct.pack_into("<I", raw, o_ + 28, 0)
        elif what == "missing-item" and not control:
            mo = 2 * MBb
            req = [wvhdx.FILE_PARAMETERS, wvhdx.VIRTUAL_DISK_SIZE, wvhdx.LOGICAL_SECTOR_SIZE, wvhdx.VIRTUAL_DISK_ID, wvhdx.FILE_PARAMETERS][value]
            n = struct.unpack_from("<H", raw, mo + 10)[0]
            ents = [bytes(raw[mo + 32 + 32 * i : mo + 64 + 32 * i]) for i in range(n)]
            keep = [e for e in ents if e[:16] != req] if value < 4 else ents[:0]
            struct.pack_into("<H", raw, mo + 10, len(keep))
            raw[mo + 32 : mo + 32 + 32 * n] = b"".join(keep).ljust(32 * n, b"\0")
        elif what == "foreign-locator-type":
            d = Path(ctx.tmpdir())
            psf, _, _ = wvhdx.build(rng, block_size=MBb, sector_size=512, nblocks=2, states=[0, 0], tag=1, checksums=False)
            psf.write_to(d / "p.vhdx")
            ltype = wvhdx.VHDX_LOCATOR_TYPE if control else [b"\0" * 16, b"\xff" * 16, bytes(reversed(wvhdx.VHDX_LOCATOR_TYPE)), wvhdx.PARENT_LOCATOR][value]
            loc = wvhdx.parent_locator([("relative_path", ".\\p.vhdx")], locator_type=ltype)
            sf, _, _ = wvhdx.build(rng, block_size=MBb, sector_size=512, nblocks=2, states=[0, 0], tag=2, has_parent=True, locator=loc, checksums=False)
            sf.write_to(d / "c.avhdx")
            return call(lambda: VHDX(d / "c.avhdx").read(512))
        return call(lambda: VHDX(corpus.make_handle(inp, bytes(raw))).read(512))
    if fam == "vdi":
        from dissect.hypervisor.disk.vdi import VDI

        raw = bytearray(inps["vdi"].raw)
        if not control:
            _flip(raw, 64, value[1])
        return call(lambda: VDI(io.BytesIO(bytes(raw))).read(512))
    if fam == "hds":
        from dissect.hypervisor.disk.hdd import HDS

        raw = bytearray(inps["hds-v1" if what.endswith("v1") else "hds-v2"].raw)
        if not control:
            _flip(raw, 0, value[1])
        return call(lambda: HDS(io.BytesIO(bytes(raw))).read(512))
    if fam == "vmdk":
        from dissect.hypervisor.disk.vmdk import VMDK, SparseDisk

        kind, _, how = what.partition(".")
        if kind == "stream":
            raw = bytearray(inps["vmdk-stream"].raw)
            if not control:
                _flip(raw, len(raw) - 1024, value[1])
            if how == "footer-magic":
                return call(lambda: SparseDisk(io.BytesIO(bytes(raw))).read_sectors(0, 1))
            return call(lambda: VMDK([io.BytesIO(bytes(raw))]).read(512))
        if kind == "delta":
            d = Path(ctx.tmpdir())
            embedded = (value or ("descriptor",))[0] == "embedded"
            text = wvmdk.descriptor_text([f'RW 300 SPARSE "{"d.vmdk" if embedded else "e.vmdk"}"'], cid="22222222", parent_cid="ffffffff" if control else value[1], parent_hint=None)
            sf, _, _ = wvmdk.build_hosted(rng, capacity=300, grain=8, ngte=64, tag=5, descriptor=text if embedded else None)
            if embedded:
                sf.write_to(str(d / "d.vmdk"))
            else:
                sf.write_to(str(d / "e.vmdk"))
                (d / "d.vmdk").write_text(text)
            return call(lambda: VMDK(d / "d.vmdk").read(512))
        src = {"kdmv": "vmdk-hosted", "cowd": "vmdk-cowd", "sesparse": "vmdk-sesparse"}[kind]
        raw = bytearray(inps[src].raw)
        if not control:
            _flip(raw, 0, value[1])
        if how == "magic":
            return call(lambda: SparseDisk(io.BytesIO(bytes(raw))).read_sectors(0, 1))
        d = Path(ctx.tmpdir())
        (d / "e.vmdk").write_bytes(bytes(raw))
        typ = {"kdmv": "SPARSE", "cowd": "VMFSSPARSE", "sesparse": "SESPARSE"}[kind]
        cap = {"kdmv": 300, "cowd": 300, "sesparse": 900}[kind]
        (d / "d.vmdk").write_text(wvmdk.descriptor_text([f'RW {cap} {typ} "e.vmdk"']))
        return call(lambda: VMDK(d / "d.vmdk").read(512))
    if fam == "hyperv":
        from dissect.hypervisor.descriptor.hyperv import HyperVFile

        if what == "backward-linked-objtable-signature":
            from vf.writers import hyperv as whv

            tree = {"configuration": {"i": whv.Val("int", -5), "s": whv.Val("string", "x"), "sub": {"deep": whv.Val("int", 7), "t": whv.Val("bool", 1)}}}
            for _try in range(40):
                raw_, meta_ = whv.build(rng, tree, ntables=3, stale_tables=0, free_prob=0.0, extra_object_tables=2, backward_chain=True)
                raw = bytearray(raw_)
                lo = meta_["extra_table_offsets"][0] if len(meta_["extra_table_offsets"]) >= 2 else None
                # the low table must be listed in the high one only
                listed_in_first = lo is not None and any(struct.unpack_from("<BIQIB", raw, 0x2008 + 18 * i)[2] == lo for i in range(struct.unpack_from("<I", raw, 0x2004)[0]))
                if lo is not None and not listed_in_first:
                    break
            else:
                raise RuntimeError("no backward-linked object table produced")
            if not control:
                _flip(raw, lo, value[1])
            return call(lambda: HyperVFile(io.BytesIO(bytes(raw))).as_dict())
        if what == "superseded-keytable-signature":
            from vf.writers import hyperv as whv

            tree = {"configuration": {"i": whv.Val("int", -5), "s": whv.Val("string", "x"), "sub": {"deep": whv.Val("int", 7)}}}
            for _try in range(40):
                raw_, meta_ = whv.build(rng, tree, ntables=1, stale_tables=2, free_prob=0.0, extra_object_tables=0)
                raw = bytearray(raw_)
                nobj = struct.unpack_from("<I", raw, 0x2004)[0]
                order = []  # key tables in object-table order: (offset, sequence number)
                for i in range(nobj):
                    t_, _x, off_, _sz, alloc_ = struct.unpack_from("<BIQIB", raw, 0x2008 + 18 * i)
                    if alloc_ and off_ in meta_["table_offsets"]:
                        order.append((off_, struct.unpack_from("<H", raw, off_ + 4)[0]))
                newest = max(range(len(order)), key=lambda j: order[j][1]) if order else 0
                later = [off_ for off_, _sq in order[newest + 1:]]
                if later:
                    break
            else:
                raise RuntimeError("no superseded table listed behind the current one")
            if not control:
                _flip(raw, later[0], value[1])
            return call(lambda: HyperVFile(io.BytesIO(bytes(raw))).as_dict())
        inp = inps["hyperv"]
        raw = bytearray(inp.raw)
        fields = {n: (o_, s_) for n, o_, s_, _ in inp.fields}
        if what == "header-signature" and not control:
            _flip(raw, 0, value[1])
            _flip(raw, 0x1000, value[1])
        elif what == "active-header-signature-only":
            s1, s2 = {1: (9, 4), 2: (4, 9), "tie": (6, 6)}[value[0]]
            struct.pack_into("<H", raw, 8, s1)
            struct.pack_into("<H", raw, 0x1000 + 8, s2)
            if not control:
                _flip(raw, 0 if value[0] == 1 else 0x1000, value[1])
        elif what == "version" and not control:
            struct.pack_into("<I", raw, 10, value)
            struct.pack_into("<I", raw, 0x1000 + 10, value)
        elif what == "replay-signature" and not control:
            _flip(raw, fields["replay.signature"][0], value[1])
        elif what == "objtable-signature" and not control:
            _flip(raw, 0x2000, value[1])
        elif what == "keytable-signature" and not control:
            for k_, (o_, s_) in fields.items():
                if k_.startswith("kt") and k_.endswith(".signature") and k_.count(".") == 1:
                    _flip(raw, o_, value[1])
        return call(lambda: HyperVFile(io.BytesIO(bytes(raw))).as_dict())
    if fam == "envelope":
        from dissect.hypervisor.util.envelope import Envelope

        key = bytes(range(32))
        payload = b"payload" * 100
        kw = {}
        if what == "cipher" and not control:
            kw["cipher_name"] = value
        raw, meta = wenv.build(rng, payload=payload, key=key, iv=bytes(12), padding=10, **kw)
        raw = bytearray(raw)
        if what == "magic" and not control:
            _flip(raw, 0, value[1])
        elif what == "version" and not control:
            struct.pack_into("<I", raw, 508, value)
        elif what == "aead-version" and not control:
            struct.pack_into("<I", raw, meta["aead_off"] + 4092, value)
        elif what == "missing-attr" and not control:
            roff, rlen, _, _ = meta["attr_index"][value]
            raw[roff + 4] ^= 0x20  # rename the attribute (first character changes case): the required name is now absent
        # every way of constructing the object is an "open": also with the optional verification argument switched off
        vmode = rng.choice(["default", "default", "kw-false", "pos-false"]) if what in ("aead-version", "version", "magic", "cipher", "missing-attr") else "default"
        if vmode == "kw-false":
            return call(lambda: Envelope(io.BytesIO(bytes(raw)), verify=False).decrypt(key))
        if vmode == "pos-false":
            return call(lambda: Envelope(io.BytesIO(bytes(raw)), False).decrypt(key))
        return call(lambda: Envelope(io.BytesIO(bytes(raw))).decrypt(key))
    if fam == "keystore":
        from dissect.hypervisor.util.envelope import KeyStore

        mode = "NONE" if control else value
        text = wenv.keystore_text(rng, key_id=bytes(16), data1=b"a" * 16, data2=b"b" * 16, mode=mode)
        return call(lambda: KeyStore.from_text(text).key)
    if fam == "keysafe":
        from dissect.hypervisor.descriptor.vmx import VMX

        cipher, mac, kdf = "AES-256", "HMAC-SHA-1", "PBKDF2-HMAC-SHA-1"
        dk = bytes(32)
        blob, p = wvx.phrase_pair(rng, "pw", dk, cipher=cipher, mac=mac, kdf=kdf, rounds=3, salt=b"s" * 8)
        data = wvx.seal(dk, b'a = "b"\n', mac, bytes(16))
        ident = "vmware:key"
        pair = wvx.pair_text(blob, p)
        if what.endswith("-first-of-several"):
            field = what.split("-")[0]
            blob2, p2 = wvx.phrase_pair(rng, "pw", dk, cipher=cipher, mac=mac, kdf=kdf, rounds=2, salt=b"t" * 8, ident="second")
            first = pair if control else wvx.pair_text(blob, dict(p, **{field: value}))
            extra_ = [wvx.pair_text(blob2, p2)] * rng.choice([1, 2])
            text = wvx.vmx_text(wvx.keysafe_text([first] + extra_, identifier=ident), data)
            return call(lambda: VMX.parse(text).unlock_with_phrase("pw"))
        if not control:
            if what == "identifier":
                ident = value
            elif what == "locator-kind":
                pair = pair.replace("phrase/", value + "/", 1) if value not in ("pairs", "list2") else pair.replace("pair/", value + "/", 1)
            elif what == "mac":
                pair = wvx.pair_text(blob, dict(p, mac=value))
            elif what == "cipher":
                pair = wvx.pair_text(blob, dict(p, cipher=value))
            elif what == "kdf":
                pair = wvx.pair_text(blob, dict(p, kdf=value))
        text = wvx.vmx_text(wvx.keysafe_text([pair], identifier=ident), data)
        return call(lambda: VMX.parse(text).unlock_with_phrase("pw"))
    if fam == "hdd":
        from dissect.hypervisor.disk.hdd import HDD

        d = Path(ctx.tmpdir()) / "g.hdd"
        g = whds.DEFAULT_TOP
        typ = "Plain" if control else value
        if what == "missing-descriptor":
            d.mkdir()
            (d / "x.hds").write_bytes(b"D" * 4096)
            if control:
                whds.write_hdd_dir(str(d), [{"start": 0, "end": 8, "images": [{"guid": g, "type": "Plain", "file": "x.hds"}]}], [(g, whds.NULL_GUID)])
            return call(lambda: HDD(d).open().read(512))
        if what == "image-type-of-ancestor":
            g1, g0 = "{11111111-2222-3333-4444-555555555555}", "{66666666-7777-8888-9999-aaaaaaaaaaaa}"
            types = {"top": "Plain", "parent": "Plain", "base": "Plain"}
            if not control:
                types[value[0]] = value[1]
            images = [{"guid": g, "type": types["top"], "file": "x.hds"}, {"guid": g1, "type": types["parent"], "file": "p.hds"},
                      {"guid": g0, "type": types["base"], "file": "b.hds"}]
            rng.shuffle(images)
            whds.write_hdd_dir(str(d), [{"start": 0, "end": 8, "images": images}], [(g, g1), (g1, g0), (g0, whds.NULL_GUID)],
                               files={"x.hds": b"D" * 4096, "p.hds": b"P" * 4096, "b.hds": b"B" * 4096})
            return call(lambda: HDD(d).open(rng.choice([None, g])).read(512))
        whds.write_hdd_dir(str(d), [{"start": 0, "end": 8, "images": [{"guid": g, "type": typ, "file": "x.hds"}]}], [(g, whds.NULL_GUID)], files={"x.hds": b"D" * 4096})
        return call(lambda: HDD(d).open().read(512))
    raise ValueError(gate)
