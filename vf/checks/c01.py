"""C01 - QCOW2: every byte range reads as the guest-visible content."""
from __future__ import annotations

from vf.core import SECTOR, Model, RawLayer, as_handle, rng_for
from vf.diskcheck import closed_handle_reads, compare_reads, continuation_reads, fault_retry_reads, crossing_count, gen_requests
from vf.monitors import call
from vf.writers import qcow2 as w

ID = "C01"
LEVEL = "exploration"
CONTRACTS = True  # icontract postconditions on AlignedStream.read/peek/seek fire during this workload too
STEP_BUDGET = 30_000_000  # line events per case; a case that exceeds it is reported as non-termination
HANDLE_CLOSE_CHECK = True
ANCHOR_FILES = ["dissect/hypervisor/disk/qcow2.py", "dissect/hypervisor/disk/c_qcow2.py"]
RULE = (
    "QCOW2 images written by an independent writer from a content model: versions 2 (72-byte header, extensions "
    "at byte 72) and 3 (header_length 104/112/>112), cluster_bits 9..16 plus 20/21 (all 9..21 thorough), standard "
    "and extended L2 (every sub-cluster bitmap class), cluster kinds normal / zero-plain / zero-alloc / unallocated "
    "/ compressed (raw deflate, several compressed clusters packed byte-granularly into shared host clusters, "
    "streams tuned to be almost cluster-sized), oversized L1, absent L2 tables next to populated ones (per-table structure, requests "
    "starting inside an absent table's range and running past its end), tables and clusters placed "
    "in-order/permuted/run-wise and beyond 4 GiB / 2^40 (sparse backing object), external data file (offset-0 "
    "cluster with COPIED), raw backing files shorter/equal/longer than the image, virtual sizes that are not a "
    "cluster multiple, header extensions of every padding; requests: exhaustive sector pairs on tiny images, "
    "boundary sets (cluster, sub-cluster, L2 coverage) + random otherwise; the inflate monitor checks every "
    "compressed read inflates at most one cluster. Non-trivial: >=2 cluster kinds or non-sequential placement; "
    "distinct = distinct (geometry, kinds, bitmaps) signatures."
    " Every stream additionally goes through: continuation sequences (read, visit elsewhere or have another user move the shared handles, resume at the earlier end / buffer end), reads under an injected transient backend I/O error followed by a retry on the same object (the failed call may raise; returned bytes must be right), and long reads (whole disk up to 24 MiB, else 6-24 MiB windows)."
)
ASSUMPTIONS = [
    "the harness's QCOW2 writer and content model are a faithful reading of docs/interop/qcow2.txt",
    "refcount structures are not generated (the reader, being read-only, never consults them)",
    "zstd-compressed and encrypted images are out of scope (refused by the reader, see C12)",
    "held means: held on the executions listed, not verified for all inputs",
]
MINIMA = {
    "quick": {"reads_compared": 5000, "extl2_cases": 30, "v2_cases": 20, "compressed_clusters": 200, "backing_cases": 30,
              "external_data_cases": 10, "far_cases": 5, "unaligned_compressed_offsets": 50, "l2_table_structured_cases": 8},
    "thorough": {"reads_compared": 500000},
}
MECH = "qcow2.read"


def plan(tier: str, seed: int) -> list[dict]:
    rng = rng_for(seed, ID, "plan")
    cases = []
    n = 230 if tier == "quick" else 20000
    bits_std = [9, 9, 10, 12, 14, 16] if tier == "quick" else list(range(9, 21))
    bits_ext = [14, 15, 16] if tier == "quick" else list(range(14, 21))
    for i in range(n):
        ext = rng.random() < 0.35
        cb = rng.choice(bits_ext if ext else bits_std)
        cases.append({"k": "img", "i": i, "cb": cb, "ext": ext, "v": 3 if ext else rng.choice([2, 3, 3]),
                      "placement": rng.choice(["seq", "rev", "shuffle", "shuffle", "runs"]), "weight": 1 + (1 << max(cb - 12, 0)) // 4})
    for i in range(6 if tier == "quick" else 40):
        cases.append({"k": "img", "i": 10_000 + i, "cb": rng.choice([9, 12, 16]), "ext": False, "v": 3, "placement": "shuffle", "far": True, "weight": 3})
    for i in range(4 if tier == "quick" else 30):
        cases.append({"k": "img", "i": 20_000 + i, "cb": 16 if i % 2 else 14, "ext": True, "v": 3, "placement": "shuffle", "far": True, "weight": 3})
    for i in range(16 if tier == "quick" else 200):
        cases.append({"k": "img", "i": 40_000 + i, "cb": rng.choice([9, 9, 10]), "ext": False, "v": rng.choice([2, 3, 3]), "placement": "shuffle", "tabled": True, "weight": 2})
    big = [20, 21] if tier == "quick" else [20, 21, 21, 21, 20, 21]
    for i, cb in enumerate(big):
        cases.append({"k": "img", "i": 30_000 + i, "cb": cb, "ext": i % 2 == 1, "v": 3, "placement": "shuffle", "big": True, "weight": 25})
    return cases


def run(case: dict, ctx) -> dict:
    from dissect.hypervisor.disk.qcow2 import ALLOW_NO_BACKING_FILE, QCow2

    res = {"cnt": {}, "viol": [], "sets": {}}
    rng = rng_for(ctx.seed, ID, case["k"], case["i"])
    cb, ext, ver = case["cb"], case["ext"], case["v"]
    cs = 1 << cb
    l2_entries = cs // (16 if ext else 8)
    quick = ctx.tier == "quick"
    big = case.get("big", False)
    external = (not big) and ver == 3 and rng.random() < 0.2
    # geometry
    if big:
        ncl = rng.randrange(2, 5)
    elif cb <= 10:
        ncl = rng.choice([1, 2, 5, rng.randrange(1, 40), l2_entries + rng.randrange(-2, 3), 2 * l2_entries + rng.randrange(1, 30), 3 * l2_entries])
    elif cb <= 12:
        ncl = rng.choice([1, 3, rng.randrange(1, 60), rng.randrange(1, 200)])
    else:
        ncl = rng.choice([1, 2, rng.randrange(1, 24), rng.randrange(1, 40)])
    if case.get("tabled"):
        ncl = l2_entries * rng.randrange(3, 7) + rng.randrange(0, l2_entries)
    ncl = max(1, ncl)
    tail = rng.choice([0, 0, SECTOR * rng.randrange(0, cs // SECTOR)])
    size = ncl * cs - min(tail, cs - SECTOR)
    alphabet = "NNUC" if ver == 2 else "NNZzUC"
    if ext:
        alphabet = "NZzUCSSSuu"
    if external:
        alphabet = alphabet.replace("C", "")
    mode = rng.random()
    tabled = False
    if (case.get("tabled") or (mode >= 0.45 and mode < 0.6)) and ncl > l2_entries:
        # per-L2-table structure: whole tables absent (L1 entry 0) right next to populated ones
        kinds = []
        for t in range(-(-ncl // l2_entries)):
            tm = rng.choice(["absent", "absent", "dense", "mixed", "sparse"])
            n_t = min(l2_entries, ncl - t * l2_entries)
            if tm == "absent":
                kinds += ["U"] * n_t
            elif tm == "dense":
                kinds += [rng.choice("NZ" if ver == 3 else "N")] * n_t
            elif tm == "sparse":
                seg = ["U"] * n_t
                seg[0] = seg[-1] = "N"
                seg[rng.randrange(n_t)] = rng.choice(alphabet)
                kinds += seg
            else:
                kinds += [rng.choice(alphabet) for _ in range(n_t)]
        tabled = True
    elif mode < 0.15 and not big:
        kinds = ["N"] * ncl  # physically contiguous runs across L2 boundaries need plain runs
    elif mode < 0.25:
        kinds = [rng.choice(alphabet) if rng.random() < 0.2 else "U" for _ in range(ncl)]
    else:
        kinds = [rng.choice(alphabet) for _ in range(ncl)]
    shared = 0
    if isinstance(kinds, list) and not external and rng.random() < 0.2:
        # guest clusters that share one host cluster with their predecessor (identical L2 entries, reference count 2)
        for g_ in range(1, len(kinds)):
            if kinds[g_ - 1] in ("N", "=") and kinds[g_] in ("N", "U") and rng.random() < 0.3:
                kinds[g_] = "="
                shared += 1
    view = w.make_view(rng, size=size, cluster_bits=cb, kinds=kinds, extl2=ext, tag=rng.getrandbits(48))
    # extensions
    exts = []
    room = cs - 112 - 64
    if rng.random() < 0.6:
        for _ in range(rng.randrange(1, 4)):
            kind = rng.choice(["fmt", "feat", "unknown", "unknown"])
            if kind == "fmt":
                d = rng.choice([b"qcow2", b"raw", b"vmdk", b"qcow"])
                e = w.extension(w.EXT_BACKING_FORMAT, d)
            elif kind == "feat":
                d = bytes(rng.randrange(256) for _ in range(48 * rng.randrange(1, 3)))
                e = w.extension(w.EXT_FEATURE_TABLE, d)
            else:
                d = bytes(rng.randrange(256) for _ in range(rng.randrange(0, 40)))
                e = w.extension(rng.choice([0x12345678, 0xDEADBEEF, 0x7FFFFFFF]), d)
            if room - len(e) > 64:
                exts.append(e)
                room -= len(e)
    # backing
    bmode = rng.choice(["none", "none", "shorter", "equal", "longer", "ragged", "optout", "qcow2-shorter"])
    backing_name = None
    backing = None
    layers = [view.layer]
    if bmode != "none":
        backing_name = rng.choice([b"base.img", b"../dir with space/b\xc3\xa4se.raw", b"b"])
        if bmode == "optout":
            backing = ALLOW_NO_BACKING_FILE
        elif bmode == "qcow2-shorter":
            # the backing image is itself a QCOW2 (handed over as an opened object), shorter than this image and with a size that
            # is not a multiple of its cluster size: what its last cluster holds beyond its size is not part of it
            from vf.chains import EndBarrier

            bcb = rng.choice([10, 12, 16])
            bcs = 1 << bcb
            bsize = max(SECTOR, min(size - SECTOR, bcs * rng.randrange(1, 12)) - SECTOR * rng.randrange(1, max(2, bcs // SECTOR))) if size > SECTOR else size
            bncl = -(-bsize // bcs)
            bkinds = [rng.choice("NNUZ") for _ in range(bncl)]
            bkinds[-1] = "N"
            bview = w.make_view(rng, size=bsize, cluster_bits=bcb, kinds=bkinds, extl2=False, tag=rng.getrandbits(48))
            bimg, _, _ = w.build(rng, cluster_bits=bcb, size=bsize, views=[bview], version=3, placement="shuffle")
            backing = call(QCow2, as_handle(bimg.to_bytes())).value
            layers += [EndBarrier(bsize), bview.layer]
        else:
            blen = {"shorter": max(size // 2 - rng.randrange(0, 3) * SECTOR, 0), "equal": size, "longer": size + 3 * cs,
                    "ragged": max(size - rng.randrange(1, 4 * cs), 0) // 1 + rng.randrange(0, SECTOR)}[bmode]
            blen = max(blen, 0)
            seed_b = rng.getrandbits(32)
            import hashlib

            braw = hashlib.shake_128(seed_b.to_bytes(4, "little")).digest(min(blen, 1 << 22))
            braw = (braw * (blen // max(len(braw), 1) + 1))[:blen] if blen else b""
            backing = as_handle(braw)
            layers.append(RawLayer(braw))
    far = case.get("far", False)
    hl = 112 if ver == 3 else 72
    if ver == 3:
        hl = rng.choice([104, 112, 112, 120, 136])
    img, dataf, meta = w.build(
        rng, cluster_bits=cb, size=size, views=[view], version=ver, extl2=ext, header_length=hl, extensions=exts,
        backing_name=backing_name, external_data=external, data_file_name=b"data.raw" if external and rng.random() < 0.7 else None,
        placement=case["placement"] if mode >= 0.15 else rng.choice(["seq", "seq", "runs"]),
        far_base=(rng.choice([1 << 32, (1 << 32) + (1 << 20), 1 << 40, 1 << 45]) if far else 0), far_frac=0.6 if far else 0.0,
        l1_extra=rng.choice([0, 0, 1, 5]), drop_empty_l2=True, level=rng.choice([1, 6, 9]),
        # some compressed clusters carry all their data but no final deflate block (written with a sync flush)
        sync_flush_frac=rng.choice([0.0, 0.0, 0.3]),
    )
    res["cnt"]["clusters_sharing_a_host_cluster"] = shared
    model = Model(size, layers)
    if len(layers) == 1 and not external and img.end <= (8 << 20) and case["i"] % 3 == 0:
        from vf.diskcheck import triangulate
        from vf.refreaders import RefQCow2

        triangulate(rng, RefQCow2(img.to_bytes()), model, "qcow2")
        res["cnt"]["writer_triangulations"] = 1
    small = img.end <= (8 << 20)
    fh = as_handle(img.to_bytes() if small else img)
    dfh = None
    if external:
        dfh = as_handle(dataf.to_bytes() if dataf.end <= (8 << 20) else dataf)
    elif rng.random() < 0.15:
        # a data_file argument the image does not ask for (a loader that always passes the sibling raw file): the image
        # alone defines the guest view, so the argument is without effect
        dfh = as_handle(bytes(rng.randrange(1, 256) for _ in range(64)) * (min(size, 1 << 20) // 64 + 1))
        res["cnt"]["unneeded_data_file_arguments"] = 1
    o = call(QCow2, fh, data_file=dfh, backing_file=backing)
    if not o.ok:
        res["viol"].append({"what": f"open failed on conformant image: {o.brief()}", "mech": MECH, "detail": {"tb": o.tb}})
        return res
    q = o.value
    if q.size != size:
        res["viol"].append({"what": "size mismatch", "mech": MECH, "detail": {"got": q.size, "exp": size}})
    units = [cs, l2_entries * cs]
    if ext:
        units.append(cs // 32)
    reqs, exhaustive = gen_requests(rng, size, units, n_random=40 if quick else 150, max_len=(1 << 20) if not big else (5 << 20),
                                    pair_cap=300 if not big else 40)
    cov = l2_entries * cs
    if cov < size:
        # start somewhere inside one L2 table's range and run past its end (and the next one's)
        for _ in range(10):
            t = rng.randrange(0, max(1, size // cov))
            a = t * cov + rng.randrange(0, cov)
            reqs.append((a, min(rng.randrange(cov // 2, 2 * cov + 2), 3 << 20)))
    res["cnt"]["l2_table_structured_cases"] = int(tabled)
    fault_retry_reads(q, model, reqs, rng, res, MECH, n=3)  # cold caches
    continuation_reads(q, model, reqs, rng, res, MECH)
    fault_retry_reads(q, model, reqs, rng, res, MECH)
    compare_reads(q, model, reqs, res, MECH, byte_cap=(32 << 20) if not big else (64 << 20))
    infl = [e for e in ctx.inflate.events if "qcow2.py" in e["site"]]
    for e in infl:
        if e["out"] > cs:
            res["viol"].append({"what": "compressed cluster inflated beyond the cluster size", "mech": "qcow2.inflate", "detail": e})
            break
    for h in (fh, dfh, backing):
        if h is not None and hasattr(h, "mutations") and h.mutations:
            res["viol"].append({"what": "handle mutated", "mech": "c09.handle", "detail": {"m": h.mutations[:3]}})
    if case["i"] % 4 == 0 and not big:
        closed_handle_reads(q, model, [fh], reqs, rng, res, MECH)
    kinds_now = "".join(view.kinds.get(g, "U") for g in range(ncl))
    cnt = res["cnt"]
    cnt["inflate_calls"] = len(infl)
    cnt["compressed_clusters"] = meta["compressed"]
    cnt["unaligned_compressed_offsets"] = meta["unaligned_coffset"]
    cnt["subcluster_bitmap_clusters"] = meta["subcluster_clusters"]
    cnt["extl2_cases"] = int(ext)
    cnt[f"v{ver}_cases"] = 1
    cnt["backing_cases"] = int(bmode not in ("none", "optout"))
    cnt["backing_optout_cases"] = int(bmode == "optout")
    cnt["external_data_cases"] = int(external)
    cnt["far_cases"] = int(meta["max_host_off"] >= (1 << 32))
    cnt["host_offsets_beyond_2^40"] = int(meta["max_host_off"] >= (1 << 40))
    cnt["multi_cluster_requests"] = crossing_count(reqs, cs)
    cnt["l2_boundary_crossing_requests"] = crossing_count(reqs, l2_entries * cs) if l2_entries * cs < size else 0
    cnt["exhaustive_request_cases"] = int(exhaustive)
    cnt["size_not_cluster_multiple"] = int(size % cs != 0)
    pairs = {kinds_now[i : i + 2] for i in range(len(kinds_now) - 1)}
    res["sets"]["adjacent_kind_pairs"] = sorted(pairs)
    res["sets"]["cluster_bits"] = [cb]
    res["sets"]["header_lengths"] = [meta["header_length"]]
    res["sets"]["backing_modes"] = [bmode]
    res["nontrivial"] = len(set(kinds_now)) > 1 or ncl > 1
    res["sig"] = (cb, ext, ver, kinds_now[:300], tuple(sorted(view.submaps.items()))[:40], size, bmode, external)
    res["sample"] = {"cluster_bits": cb, "extended_l2": ext, "version": ver, "kinds": kinds_now[:48], "size": size,
                     "backing": bmode, "external_data": external, "header_length": meta["header_length"],
                     "max_host_offset": meta["max_host_off"], "requests": reqs[:3]}
    return res
