"""C04 - VHD: every byte range reads as the guest-visible content (fixed / dynamic)."""
from __future__ import annotations

import gzip
import os
import struct

from vf.core import SECTOR, Model, as_handle, rng_for
from vf.diskcheck import closed_handle_reads, compare_reads, continuation_reads, fault_retry_reads, crossing_count, gen_requests, mismatch_detail
from vf.monitors import call
from vf.writers import vhd as w

ID = "C04"
LEVEL = "exploration"
CONTRACTS = True  # icontract postconditions on AlignedStream.read/peek/seek fire during this workload too
STEP_BUDGET = 3_000_000  # line events per case; a case that exceeds it is reported as non-termination
HANDLE_CLOSE_CHECK = True
ANCHOR_FILES = ["dissect/hypervisor/disk/vhd.py"]
RULE = (
    "VHD images written by an independent writer from a content model: fixed disks with the 512-byte and the "
    "legacy 511-byte footer, also with guest content that itself begins with a VHD footer / dynamic header (a nested image); dynamic disks with block sizes 512 B..2 MiB (..64 MiB thorough), every sector-bitmap "
    "size class (1 sector for <4096-sector blocks, more beyond), BATs with 0xFFFFFFFF holes and spare entries, "
    "blocks at arbitrary sector positions in shuffled/reversed/run-wise order, virtual sizes that are not a "
    "block multiple, all-ones and random sector bitmaps (data under 0-bits stored as zeros); byte reads and "
    "VHD.disk.read_sectors; plus both repository fixtures against a naive reference reader. Non-trivial: a "
    "dynamic disk with >=2 blocks and non-sequential placement or holes, or a fixed disk read across its end; "
    "distinct = distinct (type, block size, BAT, size) signatures."
    " Every stream additionally goes through: continuation sequences (read, visit elsewhere or have another user move the shared handles, resume at the earlier end / buffer end), reads under an injected transient backend I/O error followed by a retry on the same object (the failed call may raise; returned bytes must be right), and long reads (whole disk up to 24 MiB, else 6-24 MiB windows)."
)
ASSUMPTIONS = [
    "the harness's VHD writer/reference reader are a faithful reading of the VHD specification",
    "held means: held on the executions listed, not verified for all inputs",
]
MINIMA = {"quick": {"reads_compared": 3000, "legacy_footer_cases": 5, "small_block_cases": 10, "fixed_with_nested_vhd_content": 5}, "thorough": {"reads_compared": 300000}}
MECH = "vhd.read"
DATA = os.path.join(os.environ.get("VF_REPO", "/repo"), "tests", "data")


def plan(tier: str, seed: int) -> list[dict]:
    rng = rng_for(seed, ID, "plan")
    cases = []
    sizes = [512, 1024, 2048, 4096, 8192, 65536, 1 << 19, 1 << 20, 2 << 20]
    if tier == "thorough":
        sizes += [1536, 3584, 4 << 20, 16 << 20, 64 << 20]
    for i in range(150 if tier == "quick" else 16000):
        bs = rng.choice(sizes)
        n = rng.randrange(1, 40 if bs <= 65536 else (8 if bs <= (2 << 20) else 3))
        cases.append({"k": "dyn", "i": i, "bs": bs, "n": n, "placement": rng.choice(["seq", "rev", "shuffle", "shuffle", "runs"]),
                      "bitmaps": rng.choice(["ones", "ones", "random", "zeros"]), "weight": 1 + (bs * n >> 20)})
    if tier == "quick":
        # blocks larger than the 2 MiB default, with holes, also in the quick tier
        for j, bs in enumerate([4 << 20, 8 << 20, 16 << 20, 4 << 20]):
            cases.append({"k": "dyn", "i": 1000 + j, "bs": bs, "n": rng.randrange(2, 4), "placement": rng.choice(["rev", "shuffle"]),
                          "bitmaps": "ones", "weight": 8})
    for i in range(24 if tier == "quick" else 2000):
        cases.append({"k": "fixed", "i": i, "legacy": i % 2 == 1})
    for i in range(10 if tier == "quick" else 300):
        cases.append({"k": "twin", "i": i})
    for f in ("dynamic.vhd.gz", "fixed.vhd.gz"):
        cases.append({"k": "fixture", "name": f, "weight": 20})
    return cases


class RefVHD:
    """Naive reference reader over an in-memory VHD file."""

    def __init__(self, raw: bytes):
        self.raw = raw
        ft = raw[-512:]
        if ft[:8] != b"conectix":
            ft = raw[-511:]
        self.data_offset = struct.unpack_from(">Q", ft, 16)[0]
        self.size = struct.unpack_from(">Q", ft, 48)[0]
        self.fixed = self.data_offset == 0xFFFFFFFFFFFFFFFF
        if not self.fixed:
            dh = raw[self.data_offset : self.data_offset + 1024]
            self.table_off = struct.unpack_from(">Q", dh, 16)[0]
            self.max_entries, self.block_size = struct.unpack_from(">II", dh, 28)
            spb = self.block_size // SECTOR
            self.bm_sectors = -(-((spb + 7) // 8) // SECTOR)

    def expected(self, off: int, n: int) -> bytes:
        if off >= self.size or n <= 0:
            return b""
        n = min(n, self.size - off)
        if self.fixed:
            return self.raw[off : off + n]
        out = []
        pos = off
        while pos < off + n:
            b, o = divmod(pos, self.block_size)
            take = min(self.block_size - o, off + n - pos)
            e = struct.unpack_from(">I", self.raw, self.table_off + 4 * b)[0]
            if e == 0xFFFFFFFF:
                out.append(b"\0" * take)
            else:
                start = (e + self.bm_sectors) * SECTOR + o
                out.append(self.raw[start : start + take])
            pos += take
        return b"".join(out)


def run(case: dict, ctx) -> dict:
    from dissect.hypervisor.disk.vhd import VHD

    res = {"cnt": {}, "viol": [], "sets": {}}
    rng = rng_for(ctx.seed, ID, case["k"], case.get("i"), case.get("name"))
    k = case["k"]
    if k == "fixture":
        raw = gzip.open(os.path.join(DATA, case["name"])).read()
        model = RefVHD(raw)
        fh = as_handle(raw)
        o = call(VHD, fh)
        if not o.ok:
            res["viol"].append({"what": f"open failed on fixture: {o.brief()}", "mech": MECH, "detail": {"tb": o.tb}})
            return res
        reqs, _ = gen_requests(rng, model.size, [2 << 20, 8192], n_random=60, max_len=5 << 20)
        compare_reads(o.value, model, reqs, res, MECH, byte_cap=160 << 20)
        res["cnt"]["fixture_cases"] = 1
        res["nontrivial"] = True
        res["sig"] = ("fixture", case["name"])
        res["sample"] = {"fixture": case["name"], "size": model.size, "n_requests": len(reqs)}
        return res
    if k == "twin":
        # images sharing one unique id (the same disk at different times) opened one after the other in this process
        uid = bytes(rng.randrange(256) for _ in range(16))
        bs = rng.choice([512, 4096, 65536])
        n = rng.randrange(2, 20)
        opened = []
        for t in range(3):
            st_ = [rng.choice("AAU") for _ in range(n)]
            sf, layer, meta = w.build_dynamic(rng, block_size=bs, nblocks=n, states=st_, placement="shuffle", tag=rng.getrandbits(48), uid=uid)
            o = call(VHD, as_handle(sf.to_bytes()))
            if not o.ok:
                res["viol"].append({"what": f"open failed on conformant image: {o.brief()}", "mech": MECH, "detail": {"tb": o.tb}})
                return res
            opened.append((o.value, Model(meta["size"], [layer])))
            for v_, m_ in opened:
                reqs, _ = gen_requests(rng, m_.size, [bs], n_random=10, pair_cap=30)
                compare_reads(v_, m_, reqs, res, MECH)
        res["cnt"]["same_id_twin_images"] = len(opened)
        res["nontrivial"] = True
        res["sig"] = ("twin", case["i"])
        res["sample"] = {"twin_images_sharing_one_unique_id": len(opened), "block_size": bs}
        return res
    if k == "fixed":
        nsec = rng.choice([1, 2, 15, 16, 17, rng.randrange(1, 400), rng.randrange(1, 5000)])
        nested = rng.choice([None, None, "dynamic", "fixed"])
        # a disk resized after creation records a different original size
        orig = rng.choice([None, None, SECTOR * rng.randrange(1, 9000), nsec * SECTOR * 2])
        sf, layer, meta = w.build_fixed(rng, nsectors=nsec, legacy=case["legacy"], tag=rng.getrandbits(48), nested=nested, orig_size=orig)
        res["cnt"]["resized_disks"] = int(orig is not None)
        res["cnt"]["fixed_with_nested_vhd_content"] = int(nested is not None)
        units = [SECTOR, 8192]
    else:
        bs, n = case["bs"], case["n"]
        spb = bs // SECTOR
        tail = rng.choice([0, 0, rng.randrange(0, spb)]) if n else 0
        odd = rng.randrange(1, SECTOR) if n and rng.random() < 0.08 else 0
        case["_odd"] = odd
        sf, layer, meta = w.build_dynamic(
            rng, block_size=bs, nblocks=n, tail_cut_sectors=tail, placement=case["placement"], bitmaps=case["bitmaps"],
            tag=rng.getrandbits(48), header_off=rng.choice([512, 512, 1024, 512 * rng.randrange(1, 40), (4 << 30) - 512, 6 << 30]) if bs >= 4096 else 512,
            table_gap=rng.choice([0, 0, 1, 7]), extra_entries=rng.choice([0, 0, 1, 5]),
            orig_size=rng.choice([None, None, bs * rng.randrange(1, 3 * n + 2), SECTOR * rng.randrange(1, 100)]),
            table_place=rng.choice(["front", "front", "behind", "middle"]), stale_copy=rng.random() < 0.2,
            # blocks stored beyond 1 TiB of file: the table's 32-bit sector numbers use their top bit
            far_sector=rng.choice([0, 0, 0, 0x7FFFFF00, 0x80000000, 0xC0000001]) if bs >= 4096 else 0,
            odd_bytes=odd,
        )
        units = [bs]
    model = Model(meta["size"], [layer])
    if sf.end <= (8 << 20) and case["i"] % 4 == 0:
        from vf.diskcheck import triangulate

        triangulate(rng, RefVHD(sf.to_bytes()), model, "vhd")
        res["cnt"]["writer_triangulations"] = 1
    fh = as_handle(sf.to_bytes() if sf.end <= (8 << 20) else sf)
    o = call(VHD, fh)
    res["cnt"]["sizes_ending_inside_a_sector"] = int(bool(case.get("_odd")))
    if not o.ok and case.get("_odd"):
        # a byte count that is no whole number of sectors is unusual enough for a reader to refuse it; what it must not do is
        # open the disk and then not serve all of its bytes
        res["cnt"]["odd_size_refusals"] = 1
        res["nontrivial"] = True
        res["sig"] = ("odd-refused", case["i"])
        res["sample"] = {"odd_size": meta["size"], "outcome": o.brief()}
        return res
    if not o.ok:
        res["viol"].append({"what": f"open failed on conformant image: {o.brief()}", "mech": MECH, "detail": {"tb": o.tb}})
        return res
    v = o.value
    if v.size != meta["size"]:
        res["viol"].append({"what": "size mismatch", "mech": MECH, "detail": {"got": v.size, "exp": meta["size"]}})
    reqs, exhaustive = gen_requests(rng, meta["size"], units, n_random=40 if ctx.tier == "quick" else 150)
    fault_retry_reads(v, model, reqs, rng, res, MECH, n=3)  # cold caches
    continuation_reads(v, model, reqs, rng, res, MECH)
    fault_retry_reads(v, model, reqs, rng, res, MECH)
    compare_reads(v, model, reqs, res, MECH)
    # sector interface inside the disk
    nsec_total = meta["size"] // SECTOR
    for _ in range(12):
        if nsec_total <= 0 or res["viol"]:
            break
        s0 = rng.randrange(nsec_total)
        c = rng.randrange(1, min(nsec_total - s0, 4 * (units[0] // SECTOR) + 3) + 1)
        o2 = call(v.disk.read_sectors, s0, c)
        exp = model.expected(s0 * SECTOR, c * SECTOR)
        res["cnt"]["sector_reads_compared"] = res["cnt"].get("sector_reads_compared", 0) + 1
        if not o2.ok:
            res["viol"].append({"what": f"read_sectors raised: {o2.brief()}", "mech": MECH, "detail": {"sector": s0, "count": c, "tb": o2.tb}})
        elif o2.value != exp:
            res["viol"].append({"what": "read_sectors content mismatch", "mech": MECH, "detail": mismatch_detail(s0 * SECTOR, c * SECTOR, o2.value, exp)})
    # the disk classes built directly on a handle (no footer passed in) and the module's footer reader
    if not res["viol"] and case["i"] % 3 == 0:
        from dissect.hypervisor.disk import vhd as rvhd

        cls = rvhd.FixedDisk if k == "fixed" else rvhd.DynamicDisk
        fh2 = as_handle(sf.to_bytes() if sf.end <= (8 << 20) else sf)
        o3 = call(cls, fh2)
        res["cnt"]["direct_disk_class_checks"] = 1
        if not o3.ok:
            res["viol"].append({"what": f"{cls.__name__}(fh) failed on conformant image: {o3.brief()}", "mech": MECH, "detail": {"tb": o3.tb}})
        else:
            d3 = o3.value
            if d3.size != meta["size"]:
                res["viol"].append({"what": f"{cls.__name__}(fh).size differs from the stored size", "mech": MECH, "detail": {"got": d3.size, "exp": meta["size"]}})
            for _ in range(6):
                if nsec_total <= 0 or res["viol"]:
                    break
                s0 = rng.randrange(nsec_total)
                c3 = rng.randrange(1, min(nsec_total - s0, 64) + 1)
                o4 = call(d3.read_sectors, s0, c3)
                if not o4.ok or o4.value != model.expected(s0 * SECTOR, c3 * SECTOR):
                    res["viol"].append({"what": f"{cls.__name__}(fh).read_sectors differs from the guest content", "mech": MECH,
                                        "detail": {"sector": s0, "count": c3, "outcome": o4.brief()}})
            ft = call(rvhd.read_footer, fh2)
            if not ft.ok or ft.value.current_size != meta["size"] or bytes(ft.value.cookie) != b"conectix":
                res["viol"].append({"what": "read_footer(fh) does not return the stored footer", "mech": MECH, "detail": {"outcome": ft.brief()}})
    if fh.mutations:
        res["viol"].append({"what": "handle mutated", "mech": "c09.handle", "detail": {"m": fh.mutations[:3]}})
    if case["i"] % 3 == 0:
        closed_handle_reads(v, model, [fh], reqs, rng, res, MECH)
    res["cnt"]["exhaustive_request_cases"] = int(exhaustive)
    if k == "fixed":
        res["cnt"]["fixed_cases"] = 1
        res["cnt"]["legacy_footer_cases"] = int(case["legacy"])
        res["nontrivial"] = True
        res["sig"] = ("fixed", meta["size"], case["legacy"])
        res["sample"] = {"type": "fixed", "sectors": meta["size"] // SECTOR, "legacy_footer": case["legacy"], "requests": reqs[:3]}
    else:
        bat = meta["bat"]
        offs = [b for b in bat if b != 0xFFFFFFFF]
        res["cnt"]["dynamic_cases"] = 1
        res["cnt"]["small_block_cases"] = int(case["bs"] < 4096)
        res["cnt"]["multi_block_requests"] = crossing_count(reqs, case["bs"])
        res["cnt"]["tail_not_block_multiple"] = int(meta["size"] % case["bs"] != 0)
        res["nontrivial"] = case["n"] >= 2 and (offs != sorted(offs) or len(offs) != len(bat))
        res["sig"] = ("dyn", case["bs"], tuple(bat), meta["size"], case["bitmaps"])
        res["sets"]["block_sizes"] = [case["bs"]]
        res["sets"]["bitmap_sectors"] = [meta["bitmap_sectors"]]
        res["sample"] = {"type": "dynamic", "block_size": case["bs"], "bat": bat[:10], "size": meta["size"],
                         "bitmaps": case["bitmaps"], "placement": case["placement"], "requests": reqs[:3]}
    return res
