"""C09 - Parsing never modifies evidence (read-only operation)."""
from __future__ import annotations

import ast
import gzip
import hashlib
import io
import json
import os
import re
import shutil
import subprocess
import sys
import tempfile
from pathlib import Path

from vf import chains, streams
from vf.core import SECTOR, as_handle, rng_for
from vf.monitors import call
from vf.writers import envelope as wenv
from vf.writers import hds as whds
from vf.writers import hyperv as whv
from vf.writers import vmconfig as wcfg
from vf.writers import vmdk as wvmdk
from vf.writers import vmtar as wtar

ID = "C09"
LEVEL = "exploration"
STEP_BUDGET = 80_000_000
ANCHOR_FILES = [f"dissect/hypervisor/{m}.py" for m in ("disk/vmdk", "disk/vhdx", "disk/hdd", "util/vmtar", "util/envelope", "tools/envelope", "descriptor/hyperv")]
RULE = (
    "Every path-opening entry point is driven on real temp directories (the 'evidence'): VMDK descriptors by Path/str/"
    "file object with FLAT/VMFS/SPARSE/VMFSSPARSE/SESPARSE extents and parent lookups (same/sibling directory, Windows "
    "hint), VHDX by path with differencing parents, HDD(path).open() incl. absolute-path fall-backs and snapshot chains, "
    "vmtar by name and file object (incl. gzip archives that inflate to tens of MiB), Hyper-V files with outstanding replay-log "
    "entries through read-only, r+b, in-memory and writable()-claiming handles, OVF/VBox/PVS/VMX from real files, the envelope-decrypt CLI (success, wrong "
    "key, missing files, --output naming an existing directory) - success and error paths (missing, truncated, garbage "
    "and self-referencing files, I/O errors injected on the k-th backend call). Monitors: CPython audit hook (any "
    "open-for-write, remove/rename/truncate/chmod/utime/link/mkdir/shutil event from a repository frame other than the "
    "CLI's literal --output), observing proxies on caller-supplied handles (write/writelines/truncate), /proc/self/fd "
    "scan for descriptors under the evidence directory opened O_WRONLY/O_RDWR, and a before/after digest (content, "
    "size, mtime, mode) of the evidence directory; plus the repository's own 47 tests run under the audit hook, and in "
    "the thorough tier the same sweep under strace -f as an OS-level witness. Every handle-based disk class is also given real 'rb' and 'r+b' file "
    "objects (incl. views derived from an opened image), and the decrypt tool is interrupted (KeyboardInterrupt / ENOSPC raised out of a random "
    "line event inside the repository - a source-free failpoint) six times per case with the evidence digest compared afterwards. Reported: which repository call sites "
    "were observed opening files vs. the sites a syntactic scan finds. distinct = (entry point, configuration, fault)."
)
ASSUMPTIONS = [
    "the property's static 'all code paths' clause is outside runtime monitoring: it is decided for the executions produced; call-site reach is reported",
    "held means: held on the executions listed",
]
MINIMA = {"quick": {"entry_point_runs": 250, "repo_open_events": 300, "error_path_runs": 60, "cli_runs": 10}, "thorough": {"entry_point_runs": 2500}}
MECH = "read-only"
DATA = os.path.join(os.environ.get("VF_REPO", "/repo"), "tests", "data")
ENTRY = ["vmdk-desc", "vmdk-delta", "vmdk-mono", "vhdx-diff", "vhdx-path", "hdd", "hdd-abs", "hdd-snap", "vmtar", "hyperv", "xmlcfg", "vmx", "cli", "cli-errors", "cli-interrupt", "streams", "filehandles", "hdd-odd-bundles", "envelope-lib"]


def plan(tier: str, seed: int) -> list[dict]:
    cases = []
    reps = 14 if tier == "quick" else 400
    for ep in ENTRY:
        for r in range(reps):
            cases.append({"k": ep, "r": r, "fault": None})
            if ep not in ("cli", "cli-errors", "cli-interrupt", "streams", "xmlcfg", "vmx", "hdd-odd-bundles", "envelope-lib") and r % 2 == 0:
                cases.append({"k": ep, "r": r, "fault": ["truncate", "garbage", "missing", "ioerror"][(r // 2) % 4]})
    cases.append({"k": "repo-tests", "r": 0, "fault": None, "weight": 60})
    cases.append({"k": "static-scan", "r": 0, "fault": None})
    if tier == "thorough":
        for r in range(6):
            cases.append({"k": "strace", "r": r, "fault": None, "weight": 80})
    return cases


# ------------------------------------------------------------------------------------------- helpers


def tree_digest(root: Path) -> dict:
    out = {}
    for p in sorted(root.rglob("*")):
        try:
            st = p.lstat()
        except FileNotFoundError:
            continue
        if p.is_file():
            h = hashlib.sha256()
            with open(p, "rb") as fh:
                while True:
                    b = fh.read(1 << 20)
                    if not b:
                        break
                    h.update(b)
            out[str(p.relative_to(root))] = ("f", st.st_size, st.st_mtime_ns, st.st_mode, h.hexdigest())
        else:
            out[str(p.relative_to(root))] = ("d", 0, 0, st.st_mode, "")
    return out


def writable_fds_under(root: Path) -> list:
    bad = []
    for fd in os.listdir("/proc/self/fd"):
        try:
            target = os.readlink(f"/proc/self/fd/{fd}")
            if not target.startswith(str(root)):
                continue
            with open(f"/proc/self/fdinfo/{fd}") as fh:
                flags = int(re.search(r"flags:\s*(\d+)", fh.read()).group(1), 8)
            if flags & (os.O_WRONLY | os.O_RDWR):
                bad.append((target, oct(flags)))
        except (OSError, AttributeError):
            continue
    return bad


def writable_maps_under(root: Path) -> list:
    bad = []
    try:
        with open("/proc/self/maps") as fh:
            for line in fh:
                parts = line.split()
                if len(parts) >= 6 and parts[5].startswith(str(root)) and "w" in parts[1] and "s" in parts[1]:
                    bad.append((parts[5], parts[1]))
    except OSError:
        pass
    return bad


class FlakyFile:
    """Real file wrapper that raises OSError on the k-th read (I/O error injection)."""

    def __init__(self, path, k):
        self._fh = open(path, "rb")
        self.name = str(path)
        self.k = k
        self.n = 0

    def read(self, n=-1):
        self.n += 1
        if self.n == self.k:
            raise OSError(5, "Input/output error (injected)")
        return self._fh.read(n)

    def readinto(self, b):
        d = self.read(len(b))
        b[: len(d)] = d
        return len(d)

    def seek(self, *a):
        return self._fh.seek(*a)

    def tell(self):
        return self._fh.tell()

    def close(self):
        self._fh.close()

    def readable(self):
        return True

    def seekable(self):
        return True


def corrupt(rng, root: Path, fault: str) -> str:
    files = [p for p in root.rglob("*") if p.is_file()]
    if not files:
        return "nofile"
    p = rng.choice(files)
    if fault == "truncate":
        sz = p.stat().st_size
        with open(p, "r+b") as fh:
            fh.truncate(rng.choice([0, 1, sz // 2, max(sz - 1, 0), min(512, sz)]))
    elif fault == "garbage":
        sz = p.stat().st_size
        with open(p, "r+b") as fh:
            for _ in range(rng.randrange(1, 6)):
                fh.seek(rng.randrange(0, max(sz, 1)))
                fh.write(bytes(rng.randrange(256) for _ in range(rng.randrange(1, 64))))
    elif fault == "missing":
        p.unlink()
    return f"{fault}:{p.name}"


def use_stream(st, rng, res) -> None:
    """Bounded reads on an opened stream; exceptions are acceptable outcomes here (error paths)."""
    size = getattr(st, "size", 0) or 0
    for _ in range(6):
        off = rng.randrange(0, max(size, 1))
        call(lambda: (st.seek(off), st.read(rng.choice([1, 512, 9000, 70000])))[1])
    call(lambda: (st.seek(max(0, size - 5000)), st.read())[1])
    # the objects the library hands out (the stream, its extent / layer objects) offer no working way to modify the evidence:
    # whatever mutating method they expose is called; it may raise or do nothing, the digest / handle monitors decide
    seen = set()
    todo = [st]
    while todo and len(seen) < 40:
        ob = todo.pop()
        if id(ob) in seen or ob is None:
            continue
        seen.add(id(ob))
        if type(ob).__module__.startswith("dissect.hypervisor"):
            for name, args in (("write", (b"VF-MUTATION-PROBE",)), ("writelines", ([b"VF-MUTATION-PROBE"],)), ("truncate", (0,)), ("truncate", ()), ("flush", ())):
                fn = getattr(ob, name, None)
                if callable(fn):
                    res["cnt"]["mutating_methods_called_on_library_objects"] = res["cnt"].get("mutating_methods_called_on_library_objects", 0) + 1
                    call(fn, *args)
            for attr in ("disks", "disk", "parent", "backing_file", "streams", "qcow2"):
                sub_ = getattr(ob, attr, None)
                if isinstance(sub_, (list, tuple)):
                    todo.extend(x[1] if isinstance(x, tuple) else x for x in sub_)
                elif sub_ is not None and not isinstance(sub_, (int, str, bytes)):
                    todo.append(sub_)


# ------------------------------------------------------------------------------------------- entry points


def build_and_run(k: str, rng, ctx, root: Path, fault, res, phase: str = "both"):
    """phase 'gen' only writes the evidence; 'use' only reads it (for strace); 'both' = normal."""
    cnt = res["cnt"]
    state_file = root / ".vf-state.json"
    out_dir = Path(ctx.tmpdir())  # the CLI's --output lives outside the evidence directory

    def gen():
        st = {"k": k}
        if k == "vmdk-desc":
            lines, n = [], rng.randrange(1, 5)
            for j in range(n):
                kind = rng.choice(["FLAT", "VMFS", "SPARSE", "VMFSSPARSE", "SESPARSE"])
                if kind in ("FLAT", "VMFS"):
                    sf, _, m = wvmdk.build_flat(rng, nsectors=rng.randrange(1, 300), tag=j)
                elif kind == "SPARSE":
                    sf, _, m = wvmdk.build_hosted(rng, capacity=rng.randrange(1, 600), grain=8, ngte=64, placement="shuffle", tag=j)
                elif kind == "VMFSSPARSE":
                    sf, _, m = wvmdk.build_cowd(rng, capacity=rng.randrange(1, 600), grain=8, placement="shuffle", tag=j)
                else:
                    sf, _, m = wvmdk.build_sesparse(rng, capacity=rng.randrange(1, 600), grain=8, gt_sectors=1, placement="shuffle", tag=j)
                fn = f"disk {j}-{kind.lower()}.vmdk"
                sf.write_to(root / fn)
                lines.append(f'RW {m["capacity"]} {kind} "{fn}"')
                if rng.random() < 0.3:
                    # an extent without a file behind it (reads as zeros whoever serves it): nothing needs creating for it
                    lines.insert(rng.randrange(len(lines) + 1), f"RW {rng.choice([1, 63, 2048, 1 << 31])} ZERO")
            (root / "disk.vmdk").write_text(wvmdk.descriptor_text(lines))
            st["top"] = "disk.vmdk"
        elif k == "vmdk-mono":
            desc = wvmdk.descriptor_text(['RW 500 SPARSE "mono.vmdk"'])
            if rng.random() < 0.5:
                sf, _, m = wvmdk.build_hosted(rng, capacity=500, grain=8, ngte=64, placement="shuffle", tag=1, descriptor=desc)
            else:
                sf, _, m = wvmdk.build_stream_optimized(rng, capacity=500, grain=8, ngte=64, tag=1, descriptor=desc)
            sf.write_to(root / "mono.vmdk")
            st["top"] = "mono.vmdk"
        elif k == "vmtar":
            members = [{"name": f"dir{j}/f{j}", "kind": "file", "data": bytes([j]) * rng.randrange(1, 9000)} for j in range(rng.randrange(1, 8))]
            raw, _, _ = wtar.build(rng, members)
            (root / "a.vtar").write_bytes(raw)
            (root / "a.vgz").write_bytes(gzip.compress(raw))
            # a gzip-wrapped archive that inflates to tens of MiB (tiny on disk)
            bigm = [{"name": "big/blob", "kind": "file", "data": bytes(rng.choice([20, 40]) << 20)}, {"name": "big/small", "kind": "file", "data": b"s" * 100}]
            braw, _, _ = wtar.build(rng, bigm)
            (root / "big.vgz").write_bytes(gzip.compress(braw, compresslevel=1))
        elif k == "hyperv":
            tree = {"configuration": {"a": whv.Val("int", 5), "s": whv.Val("string", "x" * 3000, file_object=True), "sub": {"b": whv.Val("bool", 1)}}}
            raw, _ = whv.build(rng, tree, ntables=2, stale_tables=1, replay_entries=rng.choice([0, 2, 5]))
            (root / "vm.vmcx").write_bytes(raw)
        elif k == "envelope-lib":
            # an envelope of several MiB, decrypted through the library on handles of the caller's
            d1, d2 = bytes(rng.randrange(256) for _ in range(16)), bytes(rng.randrange(256) for _ in range(16))
            key = wenv.derive(d1, d2)
            payload = hashlib.shake_128(rng.getrandbits(64).to_bytes(8, "little")).digest(rng.choice([100_000, (4 << 20) + 4096, (5 << 20) + 17, 9 << 20]))
            raw, _ = wenv.build(rng, payload=payload, key=key, iv=bytes(12), padding=rng.randrange(0, 4096))
            (root / "big.ve").write_bytes(raw)
            st.update({"key": key.hex(), "payload": hashlib.sha256(payload).hexdigest()})
        elif k == "filehandles":
            # one image of every handle-based disk class, to be opened through real file objects ("rb" and "r+b")
            from vf.writers import hds as whds_
            from vf.writers import qcow2 as wq
            from vf.writers import vdi as wvdi
            from vf.writers import vhd as wvhd
            from vf.writers import vhdx as wvhdx

            cb = rng.choice([9, 12])
            views = [wq.make_view(rng, size=12 << cb, cluster_bits=cb, kinds=[rng.choice("NZUC") for _ in range(12)], extl2=False, tag=t) for t in (1, 2, 3)]
            metas = [{"id": str(i + 1).encode(), "name": f"snap {i}".encode(), "extra_size": 16} for i in range(2)]
            img, _, _ = wq.build(rng, cluster_bits=cb, size=12 << cb, views=views, version=3, placement="shuffle", snapshots_meta=metas)
            img.write_to(root / "snap.qcow2")
            # an image whose compressed clusters do not decompress (damaged evidence): reading fails, and that is all that happens
            bview = wq.make_view(rng, size=8 << cb, cluster_bits=cb, kinds=["C"] * 8, extl2=False, tag=9)
            wq.build(rng, cluster_bits=cb, size=8 << cb, views=[bview], version=3, corrupt_deflate=True)[0].write_to(root / "bad-deflate.qcow2")
            wvhd.build_dynamic(rng, block_size=4096, nblocks=6, tag=4)[0].write_to(root / "d.vhd")
            wvhdx.build(rng, block_size=1 << 20, sector_size=512, nblocks=3, states=[6, 0, 6], tag=5, checksums=False)[0].write_to(root / "d.vhdx")
            wvdi.build(rng, block_size=4096, nblocks=8, tag=6)[0].write_to(root / "d.vdi")
            whds_.build_hds(rng, version=2, m_sectors=8, nclusters=6, tag=7, in_use=rng.random() < 0.5)[0].write_to(root / "d.hds")
            wvmdk.build_hosted(rng, capacity=300, grain=8, ngte=64, tag=8)[0].write_to(root / "s.vmdk")
            wvmdk.build_flat(rng, nsectors=rng.randrange(8, 300), tag=9)[0].write_to(root / "raw-flat.vmdk")
        elif k == "hdd-odd-bundles":
            # bundles in states an examiner meets: only the backup copy of the descriptor is left, the descriptor is empty, an
            # image is missing, there are stray lock / temp files
            from vf.writers import hds as whds_

            g_ = whds_.DEFAULT_TOP
            sfb, _, mb = whds_.build_hds(rng, version=2, m_sectors=8, nclusters=6, tag=3)
            xml = whds_.descriptor_xml([{"start": 0, "end": mb["size"] // 512, "images": [{"guid": g_, "type": "Compressed", "file": "d.hds"}]}], [(g_, whds_.NULL_GUID)])
            for name_, desc, backup in (("backup-only.hdd", None, xml), ("empty-desc.hdd", "", xml), ("both.hdd", xml, xml), ("neither.hdd", None, None)):
                bd = root / name_
                bd.mkdir()
                sfb.write_to(bd / "d.hds")
                if desc is not None:
                    (bd / "DiskDescriptor.xml").write_text(desc)
                if backup is not None:
                    (bd / "DiskDescriptor.xml.Backup").write_text(backup)
                (bd / "DiskDescriptor.xml.lck").write_text("")
        elif k == "xmlcfg":
            (root / "vm.ovf").write_text(wcfg.gen_ovf(rng)[0])
            (root / "vm.vbox").write_text(wcfg.gen_vbox(rng)[0])
            (root / "config.pvs").write_text(wcfg.gen_pvs(rng)[0])
        elif k == "vmx":
            (root / "vm.vmx").write_text(wcfg.gen_vmx(rng)[0])
        elif k in ("cli", "cli-errors", "cli-interrupt"):
            d1, d2 = bytes(rng.randrange(256) for _ in range(16)), bytes(rng.randrange(256) for _ in range(16))
            key = wenv.derive(d1, d2)
            payload = bytes(rng.getrandbits(8) for _ in range(rng.randrange(0, 3000)))
            raw, _ = wenv.build(rng, payload=payload, key=key, iv=bytes(12), padding=rng.randrange(0, 4096))
            name = rng.choice(["local.tgz.ve", "envelope", "state.tgz.ve"])
            (root / name).write_bytes(raw)
            (root / "encryption.info").write_text(wenv.keystore_text(rng, key_id=bytes(16), data1=d1, data2=d2))
            (root / "other.info").write_text(wenv.keystore_text(rng, key_id=bytes(16), data1=d2, data2=d1))
            (root / Path(name).stem).write_bytes(b"unrelated file that must survive") if "." in name else None
            (root / "subdir").mkdir()
            st.update({"env": name, "payload": hashlib.sha256(payload).hexdigest()})
        state_file.write_text(json.dumps(st))
        return st

    def use(st):
        nonlocal cnt
        handles = []
        try:
            if k in ("vmdk-desc", "vmdk-mono"):
                from dissect.hypervisor.disk.vmdk import VMDK

                p = root / st["top"]
                mode = rng.choice(["path", "str", "fh"])
                if fault == "ioerror":
                    fh = FlakyFile(p, rng.randrange(1, 6))
                    handles.append(fh)
                    o = call(VMDK, fh)
                elif mode == "fh":
                    fh = open(p, "rb")
                    handles.append(fh)
                    o = call(VMDK, fh)
                else:
                    o = call(VMDK, p if mode == "path" else str(p))
                if o.ok:
                    use_stream(o.value, rng, res)
                return o
            if k == "vmtar":
                from dissect.hypervisor.util import vmtar

                p = root / rng.choice(["a.vtar", "a.vgz", "big.vgz", "big.vgz"])

                def f(hmode=None):
                    if hmode is None:
                        t = vmtar.open(str(p))
                    else:
                        # a handle the caller opened - in whatever mode the caller's own code happens to use; the archive is read
                        res["sets"].setdefault("handle_modes", []).append(f"vmtar:{hmode}")
                        if hmode == "spooled":
                            import tempfile

                            fh = tempfile.SpooledTemporaryFile(max_size=1 << 30)  # mode "w+b"
                            fh.write(p.read_bytes())
                            content = p.read_bytes()
                        else:
                            fh = open(p, hmode)
                            content = None
                        fh.seek(0)
                        handles.append(fh)
                        t = vmtar.open(fileobj=fh)
                        out = [len(t.extractfile(m).read(1 << 16)) for m in t.getmembers() if m.isreg()]
                        t.close()
                        if content is not None:
                            fh.seek(0)
                            if fh.read() != content:
                                res["viol"].append({"what": "a caller-supplied handle was written to", "mech": MECH, "detail": {"entry_point": k, "handle": "SpooledTemporaryFile w+b"}})
                        return out
                    return [len(t.extractfile(m).read(1 << 16)) for m in t.getmembers() if m.isreg()]

                last = call(f)
                modes = ["rb", "r+b", "a+b", "spooled"] if p.name != "big.vgz" else [rng.choice(["rb", "a+b"])]
                if phase != "both":
                    modes = ["rb", "spooled"]  # system-call witness: the harness's own opens would be taken for the library's
                for hmode in modes if p.exists() else ["rb"]:  # (the harness itself must not create a missing file by opening it "a+b")
                    last = call(f, hmode)
                return last
            if k == "hyperv":
                from dissect.hypervisor.descriptor.hyperv import HyperVFile

                # (under the system-call witness the harness itself must not open evidence for writing: read-only modes there)
                hmode = rng.choice(["rb", "r+b", "proxy-writable", "bytesio"] if phase == "both" else ["rb", "proxy-writable", "bytesio"])
                if fault == "ioerror":
                    fh = FlakyFile(root / "vm.vmcx", rng.randrange(1, 9))
                elif hmode in ("rb", "r+b"):
                    # a caller may well hand in a handle that happens to be writable: it must still not be written to
                    fh = open(root / "vm.vmcx", hmode)
                elif hmode == "proxy-writable":
                    fh = as_handle((root / "vm.vmcx").read_bytes(), claims_writable=True)
                else:
                    fh = io.BytesIO((root / "vm.vmcx").read_bytes())
                handles.append(fh)
                before_bytes = fh.getvalue() if hmode == "bytesio" and fault != "ioerror" else None
                o_ = call(lambda: HyperVFile(fh).as_dict())
                if before_bytes is not None and fh.getvalue() != before_bytes:
                    res["viol"].append({"what": "a caller-supplied in-memory handle was modified", "mech": MECH, "detail": {"entry_point": k}})
                if getattr(fh, "mutations", None):
                    res["viol"].append({"what": "write/truncate called on a caller-supplied handle", "mech": MECH, "detail": {"entry_point": k, "calls": fh.mutations[:3]}})
                res["sets"].setdefault("handle_modes", []).append(hmode)
                return o_
            if k == "filehandles":
                from dissect.hypervisor.disk.hdd import HDS
                from dissect.hypervisor.disk.qcow2 import QCow2
                from dissect.hypervisor.disk.vdi import VDI
                from dissect.hypervisor.disk.vhd import VHD
                from dissect.hypervisor.disk.vhdx import VHDX
                from dissect.hypervisor.disk.vmdk import VMDK

                last = None
                for cls, fn in ((QCow2, "snap.qcow2"), (QCow2, "bad-deflate.qcow2"), (VHD, "d.vhd"), (VHDX, "d.vhdx"), (VDI, "d.vdi"), (HDS, "d.hds"), (VMDK, "s.vmdk"), (VMDK, "raw-flat.vmdk")):
                    hmode = rng.choice(["rb", "r+b", "r+b"])
                    try:
                        fh = FlakyFile(root / fn, rng.randrange(1, 9)) if fault == "ioerror" else open(root / fn, hmode)
                    except FileNotFoundError:
                        continue
                    handles.append(fh)
                    res["sets"].setdefault("handle_modes", []).append(f"{cls.__name__}:{hmode}")

                    def f(cls=cls, fh=fh):
                        d = cls(fh)
                        out = [len(d.read(70000))]
                        use_stream(d, rng, res)
                        for sn in getattr(d, "snapshots", []) or []:
                            # views derived from an opened image (internal snapshots) must not re-open the file for writing either
                            v = sn.open()
                            out.append(len(v.read(70000)))
                            handles.append(v)
                        return out

                    last = call(f)
                return last
            if k == "envelope-lib":
                from dissect.hypervisor.util.envelope import Envelope

                raw = (root / "big.ve").read_bytes()
                last = None
                for hkind in ("bytesio", "r+b", "proxy-writable"):
                    fh = io.BytesIO(raw) if hkind == "bytesio" else (open(root / "big.ve", "r+b") if hkind == "r+b" else as_handle(raw, claims_writable=True))
                    handles.append(fh)
                    res["sets"].setdefault("handle_modes", []).append(f"envelope:{hkind}")
                    last = call(lambda: hashlib.sha256(Envelope(fh).decrypt(bytes.fromhex(st["key"]))).hexdigest())
                    if last.ok and last.value != st["payload"] and fault is None:
                        res["viol"].append({"what": "Envelope.decrypt did not return the payload", "mech": "envelope.lib", "detail": {"handle": hkind}})
                    if hkind == "bytesio" and fh.getvalue() != raw:
                        res["viol"].append({"what": "a caller-supplied in-memory handle was modified", "mech": MECH,
                                            "detail": {"entry_point": k, "first_difference_at": next(i for i, (a_, b_) in enumerate(zip(fh.getvalue(), raw)) if a_ != b_)}})
                    if getattr(fh, "mutations", None):
                        res["viol"].append({"what": "write/truncate called on a caller-supplied handle", "mech": MECH, "detail": {"entry_point": k, "calls": fh.mutations[:3]}})
                return last
            if k == "hdd-odd-bundles":
                from dissect.hypervisor.disk.hdd import HDD

                last = None
                for name_ in ("backup-only.hdd", "empty-desc.hdd", "both.hdd", "neither.hdd"):
                    for target in (root / name_, root / name_ / "d.hds", root / name_ / "DiskDescriptor.xml"):
                        last = call(lambda: HDD(target).open().read(4096))
                return last
            if k == "xmlcfg":
                from dissect.hypervisor.descriptor.ovf import OVF
                from dissect.hypervisor.descriptor.pvs import PVS
                from dissect.hypervisor.descriptor.vbox import VBox

                outs = []
                for cls, fn in ((OVF, "vm.ovf"), (VBox, "vm.vbox"), (PVS, "config.pvs")):
                    fh = open(root / fn, "r", encoding="utf-8")
                    handles.append(fh)
                    outs.append(call(lambda: list(cls(fh).disks())))
                return outs[0]
            if k == "vmx":
                from dissect.hypervisor.descriptor.vmx import VMX

                return call(lambda: VMX.parse((root / "vm.vmx").read_text()).disks())
            if k == "cli-interrupt":
                # the tool interrupted (Ctrl-C) or failing (disk full) at an arbitrary point of its run: the evidence must
                # be untouched whatever clean-up the tool attempts. The point is a source-free failpoint: the n-th line
                # event inside the repository raises.
                from dissect.hypervisor.tools import envelope as tool

                env = root / st["env"]
                outs = [out_dir / "full.bin", out_dir / "partial.bin"]
                ctx.audit.allow_write_paths = {str(p) for p in outs}
                argv = sys.argv
                last = None
                try:
                    sys.argv = ["envelope-decrypt", str(env), "-ks", str(root / "encryption.info"), "-o", str(outs[0])]
                    s0 = ctx.steps.steps
                    tool.main()
                    total = max(ctx.steps.steps - s0, 1)
                    for rep in range(6):
                        exc = KeyboardInterrupt() if rep % 2 == 0 else OSError(28, "No space left on device (injected)")
                        ctx.steps.arm_failpoint(rng.randrange(1, total + 1), exc)
                        sys.argv = ["envelope-decrypt", str(env), "-ks", str(root / "encryption.info"), "-o", str(outs[1])]
                        try:
                            tool.main()
                            last = "completed"
                        except (KeyboardInterrupt, SystemExit, Exception) as e:  # noqa: BLE001
                            last = type(e).__name__
                        finally:
                            ctx.steps.failpoint = None
                        cnt["cli_runs_interrupted"] = cnt.get("cli_runs_interrupted", 0) + int(last != "completed")
                        res["sets"].setdefault("interrupt_sites", []).append(str(ctx.steps.failpoint_fired_at))
                        if not env.exists():
                            res["viol"].append({"what": "the input envelope is gone after an interrupted envelope-decrypt run", "mech": MECH,
                                                "detail": {"interrupted_at": ctx.steps.failpoint_fired_at, "outcome": last}})
                            break
                finally:
                    sys.argv = argv
                cnt["cli_runs"] = cnt.get("cli_runs", 0) + 1
                return call(lambda: last)
            if k in ("cli", "cli-errors"):
                from dissect.hypervisor.tools import envelope as tool

                env = root / st["env"]
                rel_cwd = None
                if k == "cli":
                    out = out_dir / "plain.bin"
                    args = [str(env), "-ks", str(root / "encryption.info"), "-o", str(out)]
                    if rng.random() < 0.4:
                        # the output named relative to the working directory (which is not the evidence directory)
                        rel_cwd = out_dir
                        args[-1] = rng.choice(["plain.bin", "./plain.bin"])
                        res["sets"].setdefault("cli_variants", []).append("relative-output")
                else:
                    variant = rng.choice(["outdir-evidence", "outdir-sub", "wrongkey", "missing-ks", "missing-env", "out-in-evidence", "tampered", "tampered", "no-output", "no-output"])
                    if variant == "tampered":
                        # an envelope that fails authentication (flipped ciphertext / tag byte): the tool stops; nothing but --output
                        # may appear anywhere (the audit hook sees every open-for-write from repository frames)
                        rawt = bytearray(env.read_bytes())
                        rawt[rng.choice([4096, 4096 + (len(rawt) - 8192) // 2, len(rawt) - 4096 + 32])] ^= 0x40
                        env = out_dir / ("tampered-" + env.name)
                        env.write_bytes(bytes(rawt))
                    out = {"outdir-evidence": root, "outdir-sub": root / "subdir", "wrongkey": out_dir / "w.bin", "missing-ks": out_dir / "m.bin",
                           "missing-env": out_dir / "e.bin", "out-in-evidence": root / "explicit-output.bin", "tampered": out_dir / "t.bin",
                           "no-output": out_dir / "never-named.bin"}[variant]
                    ks = root / ("other.info" if variant == "wrongkey" else "nope.info" if variant == "missing-ks" else "encryption.info")
                    args = [str(root / "nope.ve") if variant == "missing-env" else str(env), "-ks", str(ks), "-o", str(out)]
                    if variant == "no-output":
                        # the caller names no output file: whatever the tool does then, it has no business writing next to the evidence
                        args = args[:-2]
                    res["sets"].setdefault("cli_variants", []).append(variant)
                    st["cli_out"] = str(out)
                ctx.audit.allow_write_paths = {str(out)} | ({"plain.bin", "./plain.bin"} if rel_cwd is not None else set())
                argv = sys.argv
                sys.argv = ["envelope-decrypt"] + args
                cwd0 = os.getcwd()
                if rel_cwd is not None:
                    os.chdir(rel_cwd)
                try:
                    try:
                        o = call(tool.main)
                    except SystemExit as e:  # argparse / parser.exit
                        o = call(lambda: (_ for _ in ()).throw(RuntimeError(f"SystemExit {e.code}")))
                finally:
                    sys.argv = argv
                    os.chdir(cwd0)
                cnt["cli_runs"] = cnt.get("cli_runs", 0) + 1
                if k == "cli":
                    if not o.ok or not out.is_file() or hashlib.sha256(out.read_bytes()).hexdigest() != st["payload"]:
                        res["viol"].append({"what": "envelope-decrypt did not write exactly the payload to --output", "mech": "envelope.cli", "detail": {"outcome": o.brief()}})
                st["allowed"] = str(out)
                return o
        finally:
            for h in handles:
                try:
                    h.close()
                except Exception:  # noqa: BLE001
                    pass
        return None

    if phase == "gen":
        return gen()
    if phase == "use":
        return use(json.loads(state_file.read_text()))
    st = gen()
    if fault in ("truncate", "garbage", "missing"):
        res["sets"].setdefault("faults", []).append(corrupt(rng, root, fault).split(":")[0])
    return st, (lambda: use(st))


def run(case: dict, ctx) -> dict:
    res = {"cnt": {}, "viol": [], "sets": {}}
    cnt = res["cnt"]
    k = case["k"]
    rng = rng_for(ctx.seed, ID, k, case["r"], case["fault"])
    if k == "repo-tests":
        return _repo_tests(ctx, res)
    if k == "static-scan":
        return _static_scan(ctx, res)
    if k == "strace":
        return _strace(case, ctx, res)
    fault = case["fault"]
    root = Path(ctx.tmpdir()) / "evidence"
    root.mkdir()
    opened = None
    runner = None
    # ---- build the evidence (harness writes; audit only attributes repository frames, so this is not recorded)
    if k in ("vmdk-delta", "vhdx-diff", "hdd-snap", "vhdx-path", "hdd", "hdd-abs", "streams"):
        # these builders create their own temp dir and open the top of the chain: snapshot that directory instead
        class _Ctx:
            def tmpdir(self_inner):
                d = root / f"d{len(list(root.iterdir()))}"
                d.mkdir()
                return str(d)

        fake = _Ctx()
        before = None

        def runner():
            if k == "vmdk-delta":
                return chains.vmdk_delta(rng, fake, depth=rng.choice([2, 3]), parent_config=rng.choice(["samedir", "sibling", "windows", "missing"] if fault else ["samedir", "sibling", "windows"]),
                                         child_kind=rng.choice(["descriptor", "embedded", "multi"]))
            if k == "vhdx-diff":
                return chains.vhdx_diff(rng, fake, depth=rng.choice([2, 3]), parent_config=rng.choice(["relative", "absolute", "subdir", "missing"] if fault else ["relative", "absolute", "subdir"]),
                                        open_mode=rng.choice(["path", "str", "fh"]))
            if k == "vhdx-path":
                from dissect.hypervisor.disk.vhdx import VHDX
                from vf.writers import vhdx as wv

                sf, layer, meta = wv.build(rng, block_size=1 << 20, sector_size=512, nblocks=3, states=[6, 0, 6], tag=1, checksums=False)
                p = Path(fake.tmpdir()) / "plain.vhdx"
                sf.write_to(p)
                v = VHDX(p if rng.random() < 0.5 else str(p))
                return streams.Opened(v, None)
            if k == "hdd-snap":
                return chains.hdd_snapshots(rng, fake, depth=rng.choice([1, 2, 3]), top_mode=rng.choice(["default", "explicit"]), nstorages=rng.choice([1, 2]),
                                            base_plain=rng.random() < 0.3, open_guid=rng.choice(["top", "pick"]))
            if k == "hdd":
                return streams.open_kind("hdd-storages", rng, fake)
            if k == "hdd-abs":
                return chains.hdd_abs(rng, fake)
            return streams.open_kind(rng.choice(streams.KINDS), rng, fake)

        before_dirs = True
    else:
        st, runner = build_and_run(k, rng, ctx, root, fault, res)
    # ---- snapshot, run under monitors, compare
    if k in ("vmdk-delta", "vhdx-diff", "hdd-snap", "vhdx-path", "hdd", "hdd-abs", "streams"):
        # the builder both writes and opens; evidence digest is taken right after the open and compared after use
        o = call(runner)
        before = tree_digest(root)
        if o.ok:
            if fault in ("truncate", "garbage", "missing"):
                # corrupt the evidence *after* opening is not meaningful; re-open on corrupted evidence instead
                pass
            use_stream(o.value.stream, rng, res)
            for h_ in getattr(o.value, "handles", None) or []:
                if getattr(h_, "mutations", None):
                    res["viol"].append({"what": "write/truncate reached a caller-supplied handle through an object the library handed out", "mech": MECH,
                                        "detail": {"entry_point": k, "calls": h_.mutations[:3]}})
                    break
        elif "vf/" in (o.tb or "") and "dissect/hypervisor" not in (o.tb or ""):
            raise o.exc
        outcome = o
    else:
        before = tree_digest(root)
        try:
            outcome = runner()
        except FileNotFoundError:
            if fault != "missing":
                raise
            outcome = None  # the harness itself could not open the file it had removed on purpose
    after = tree_digest(root)
    cnt["entry_point_runs"] = 1
    cnt["error_path_runs"] = int(fault is not None or (outcome is not None and hasattr(outcome, "ok") and not outcome.ok))
    allowed = None
    if k == "cli-errors" and "cli_out" in locals().get("st", {}):
        allowed = st["cli_out"]
    changed = []
    for name in set(before) | set(after):
        if name == ".vf-state.json":
            continue
        if before.get(name) != after.get(name):
            full = str(root / name)
            if allowed is not None and full == allowed:
                continue
            changed.append((name, before.get(name, ("absent",))[:2], after.get(name, ("absent",))[:2]))
    if changed:
        res["viol"].append({"what": "the evidence directory changed (content, size, mtime, mode or new/removed entry)", "mech": MECH,
                            "detail": {"entry_point": k, "fault": fault, "changed": changed[:4]}})
    if ctx.audit.writes:
        res["viol"].append({"what": "write-class event from a repository frame", "mech": MECH, "detail": {"entry_point": k, "events": ctx.audit.writes[:3]}})
    bad_fd = writable_fds_under(root)
    if bad_fd:
        res["viol"].append({"what": "a file under the evidence directory is open for writing", "mech": MECH, "detail": {"fds": bad_fd[:3], "entry_point": k}})
    bad_map = writable_maps_under(root)
    if bad_map:
        res["viol"].append({"what": "a file under the evidence directory is mapped shared-writable", "mech": MECH, "detail": {"maps": bad_map[:3]}})
    cnt["repo_open_events"] = len(ctx.audit.opens)
    modes = sorted({str(o_["mode"]) for o_ in ctx.audit.opens})
    res["sets"]["open_modes_seen"] = modes
    res["sets"]["entry_points"] = [k]
    res["sets"]["outcomes"] = [f"{k}:{'ok' if (outcome is None or getattr(outcome, 'ok', True)) else outcome.exc_name()}"]
    res["nontrivial"] = True
    res["sig"] = (k, case["r"], fault)
    res["sample"] = {"entry_point": k, "fault": fault, "repo_opens": [(o_["site"], o_["mode"]) for o_ in ctx.audit.opens[:4]], "files_in_evidence": len(before)}
    return res


def _repo_tests(ctx, res):
    """The repository's own tests under the audit hook."""
    import pytest

    repo = os.environ.get("VF_REPO", "/repo")
    cwd = os.getcwd()
    os.chdir(repo)
    try:
        rc = pytest.main(["-q", "-p", "no:cacheprovider", "-x", os.path.join(repo, "tests")])
    finally:
        os.chdir(cwd)
    res["cnt"]["repo_tests_run_under_audit"] = 1
    res["cnt"]["repo_open_events"] = len(ctx.audit.opens)
    if rc != 0:
        raise RuntimeError(f"repository tests failed under the monitors (pytest exit {rc})")
    if ctx.audit.writes:
        res["viol"].append({"what": "write-class event from a repository frame while running the repository's tests", "mech": MECH, "detail": {"events": ctx.audit.writes[:3]}})
    res["sets"]["open_modes_seen"] = sorted({str(o_["mode"]) for o_ in ctx.audit.opens})
    res["nontrivial"] = True
    res["sig"] = ("repo-tests",)
    res["sample"] = {"repo_tests": "47 tests under sys.addaudithook", "repo_open_events": len(ctx.audit.opens)}
    return res


def _static_scan(ctx, res):
    """Syntactic list of call sites that could open files or mutate (reported for reach, never a verdict)."""
    repo = Path(os.environ.get("VF_REPO", "/repo")) / "dissect" / "hypervisor"
    sites = []
    mut = []
    for p in sorted(repo.rglob("*.py")):
        tree = ast.parse(p.read_text())
        for node in ast.walk(tree):
            if isinstance(node, ast.Call):
                f = node.func
                name = f.attr if isinstance(f, ast.Attribute) else getattr(f, "id", "")
                rel = f"{p.relative_to(repo)}:{node.lineno}"
                if name in ("open", "read_text", "read_bytes"):
                    mode = None
                    if name == "open" and node.args:
                        a = node.args[-1] if isinstance(f, ast.Attribute) else (node.args[1] if len(node.args) > 1 else None)
                        if isinstance(a, ast.Constant) and isinstance(a.value, str):
                            mode = a.value
                    sites.append((rel, name, mode))
                if name in ("write", "writelines", "truncate", "unlink", "remove", "rename", "rmdir", "mkdir", "write_text", "write_bytes", "chmod", "touch", "rmtree", "copy", "move"):
                    mut.append((rel, name))
    res["sets"]["static_open_sites"] = [f"{a}:{b}({c})" for a, b, c in sites]
    res["sets"]["static_mutating_call_sites"] = [f"{a}:{b}" for a, b in mut]
    res["cnt"]["static_open_sites"] = len(sites)
    res["nontrivial"] = True
    res["sig"] = ("static-scan",)
    res["sample"] = {"static_open_sites": len(sites), "static_mutating_call_sites": [f"{a}:{b}" for a, b in mut][:10]}
    return res


def _strace(case, ctx, res):
    """OS-level witness: generate evidence un-traced, then use it in a child under strace -f."""
    if not shutil.which("strace"):
        raise RuntimeError("strace not available")
    rng = rng_for(ctx.seed, ID, "strace", case["r"])
    root = Path(ctx.tmpdir()) / "evidence"
    root.mkdir()
    eps = ["vmdk-desc", "vmdk-mono", "vmtar", "hyperv", "xmlcfg", "vmx", "cli"]
    env = dict(os.environ)
    log = Path(ctx.tmpdir()) / "strace.log"
    viol = []
    for ep in eps:
        sub = root / ep
        sub.mkdir()
        code = (f"import sys; sys.path[:0]={[os.path.dirname(os.path.dirname(os.path.dirname(os.path.abspath(__file__)))), os.environ.get('VF_REPO', '/repo')]!r};"
                f"from vf.checks import c09; c09.child_main({str(sub)!r}, {ep!r}, {ctx.seed}, {case['r']}, PHASE)")
        g = subprocess.run([sys.executable, "-c", code.replace("PHASE", "'gen'")], env=env, capture_output=True, text=True, timeout=300)
        if g.returncode != 0:
            raise RuntimeError(f"strace gen phase failed: {g.stderr[-500:]}")
        u = subprocess.run(["strace", "-f", "-qq", "-e", "trace=openat,open,creat,unlink,unlinkat,rename,renameat,renameat2,truncate,ftruncate,mkdir,mkdirat,rmdir,chmod,fchmodat,utimensat,link,linkat,symlink,symlinkat",
                            "-o", str(log), sys.executable, "-c", code.replace("PHASE", "'use'")], env=env, capture_output=True, text=True, timeout=600)
        if u.returncode not in (0,):
            raise RuntimeError(f"strace use phase failed: {u.stderr[-500:]}")
        n = 0
        for line in log.read_text(errors="replace").splitlines():
            if str(sub) not in line:
                continue
            n += 1
            m = re.search(r"(\w+)\((.*)", line)
            call_ = m.group(1) if m else ""
            bad = False
            if call_ in ("openat", "open", "creat"):
                bad = bool(re.search(r"O_WRONLY|O_RDWR|O_CREAT|O_TRUNC|O_APPEND", line)) and "= -1" not in line
            elif call_:
                bad = "= -1" not in line
            if bad:
                viol.append(line[:200])
        res["cnt"]["strace_syscalls_on_evidence"] = res["cnt"].get("strace_syscalls_on_evidence", 0) + n
    if viol:
        res["viol"].append({"what": "write-class system call on the evidence directory (strace witness)", "mech": MECH, "detail": {"syscalls": viol[:4]}})
    res["cnt"]["strace_runs"] = len(eps)
    res["nontrivial"] = True
    res["sig"] = ("strace", case["r"])
    res["sample"] = {"strace_entry_points": eps, "syscalls_on_evidence": res["cnt"].get("strace_syscalls_on_evidence", 0)}
    return res


def child_main(root: str, ep: str, seed: int, r: int, phase: str) -> None:
    """Entry for the strace child processes."""
    import importlib

    from vf import worker

    worker.import_repo()

    class C:
        tier = "thorough"

        def __init__(self):
            self.audit = type("A", (), {"allow_write_paths": set()})()
            self._t = []

        def tmpdir(self):
            d = tempfile.mkdtemp(prefix="vf-strace-out-")
            self._t.append(d)
            return d

    ctx = C()
    ctx.seed = seed
    rng = rng_for(seed, ID, "strace-child", ep, r)
    res = {"cnt": {}, "viol": [], "sets": {}}
    build_and_run(ep, rng, ctx, Path(root), None, res, phase=phase)
    for d in ctx._t:
        shutil.rmtree(d, ignore_errors=True)
