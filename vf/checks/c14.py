"""C14 - Exposed image metadata and parent references equal what the file stores."""
from __future__ import annotations

import struct
import uuid as _uuid
from pathlib import Path

from vf.core import SECTOR, as_handle, rng_for
from vf.monitors import call
from vf.writers import hds as whds
from vf.writers import qcow2 as wq
from vf.writers import vdi as wvdi
from vf.writers import vhd as wvhd
from vf.writers import vhdx as wvhdx
from vf.writers import vmdk as wvmdk

ID = "C14"
LEVEL = "exploration"
STEP_BUDGET = 10_000_000
ANCHOR_FILES = [f"dissect/hypervisor/disk/{m}.py" for m in ("qcow2", "vhdx", "vmdk", "vhd", "vdi", "hdd")]
RULE = (
    "Writers with every exposed field drawn at random over its full range: QCOW2 header fields, backing file name "
    "(UTF-8, 1..1023 bytes) and format, header extensions of all known kinds plus unknown ones in any order with every "
    "padding 0..7, snapshot tables of 0..20 entries with id/name lengths of every residue mod 8 and extra-data sizes "
    "0/16/24/32/40+; VHDX sizes, ids, both headers with all orderings of sequence numbers, parent-locator entries "
    "(UTF-16-LE incl. non-BMP, any storage order of the strings); VMDK stand-alone and embedded descriptors (key/value "
    "lines, ddb lines, extent lines, comments, CRLF) and sparse header fields; VHD footer/dynamic header; VDI and HDS "
    "headers; Parallels descriptors (storages, images, snapshots, TopGUID). Oracle: attribute-by-attribute equality "
    "with the generated values (QCOW2 format names compared case-insensitively). Non-trivial: >= 5 fields compared "
    "with at least one variable-length or counted structure; distinct = (format, drawn values)."
)
ASSUMPTIONS = [
    "only public attributes named in the property's observe_at / anchors are compared",
    "VMDK values with leading/trailing blanks inside the quotes are not generated (the reader strips them; not promised)",
    "held means: held on the executions listed, not verified for all values",
]
MINIMA = {"quick": {"fields_compared": 3000, "qcow2_snapshots_compared": 200, "locator_entries_compared": 60, "header_extensions_compared": 150},
          "thorough": {"fields_compared": 500000}}
MECH = "metadata"
FORMATS = ["qcow2", "qcow2", "qcow2-snap", "qcow2-snap", "vhdx", "vhdx-parent", "vmdk-desc", "vmdk-desc", "vmdk-embedded", "vhd", "vdi", "hds", "hdd-desc", "hdd-desc", "hdd-opened"]


def plan(tier: str, seed: int) -> list[dict]:
    n = 40 if tier == "quick" else 2500
    return [{"fmt": f, "i": j * 100 + i} for j, f in enumerate(FORMATS) for i in range(n)]


class Cmp:
    def __init__(self, res):
        self.res = res
        self.n = 0

    def eq(self, name, got, exp, norm=None):
        self.n += 1
        g, e = (norm(got), norm(exp)) if norm else (got, exp)
        if g != e and len(self.res["viol"]) < 4:
            self.res["viol"].append({"what": f"exposed {name} differs from the stored value", "mech": MECH,
                                     "detail": {"field": name, "got": repr(got)[:300], "stored": repr(exp)[:300]}})


def _text(rng, n, alphabet="abcXYZ 0189-_.é日本😀ß"):
    return "".join(rng.choice(alphabet) for _ in range(n))


def run(case: dict, ctx) -> dict:
    res = {"cnt": {}, "viol": [], "sets": {}}
    cnt = res["cnt"]
    rng = rng_for(ctx.seed, ID, case["fmt"], case["i"])
    fmt = case["fmt"]
    c = Cmp(res)
    sample = {"format": fmt}
    try:
        globals()["_" + fmt.replace("-", "_")](rng, ctx, c, cnt, sample, res)
    except _OpenFailed as e:
        res["viol"].append({"what": f"open failed on a well-formed file: {e.o.brief()}", "mech": MECH, "detail": {"tb": e.o.tb, "fmt": fmt}})
    cnt["fields_compared"] = c.n
    cnt[f"{fmt}_cases"] = 1
    res["nontrivial"] = c.n >= 5
    res["sig"] = (fmt, case["i"])
    res["sample"] = sample
    return res


class _OpenFailed(Exception):
    def __init__(self, o):
        self.o = o


def _open(fn, *a, **kw):
    o = call(fn, *a, **kw)
    if not o.ok:
        raise _OpenFailed(o)
    return o.value


# ----------------------------------------------------------------------------------------- QCOW2


def _qcow2(rng, ctx, c, cnt, sample, res, with_snaps=False):
    from dissect.hypervisor.disk.qcow2 import ALLOW_NO_BACKING_FILE, QCow2

    ver = rng.choice([2, 3, 3])
    cb = rng.choice([10, 12, 16] if not with_snaps else [9, 12, 16])
    cs = 1 << cb
    ncl = rng.randrange(1, 12)
    if with_snaps and cb == 9 and rng.random() < 0.6:
        ncl = rng.randrange(70, 300)  # several L2 tables: the L1 table of a snapshot may be shorter than the active one
    size = ncl * cs - SECTOR * rng.randrange(0, cs // SECTOR)
    exts_spec = []
    room = cs - 200
    bname = None
    if rng.random() < 0.6:
        ln = rng.choice([1, 5, 8, 63, rng.randrange(1, min(1023, room // 3))])
        bname = _text(rng, ln).encode()[:1023] or b"b"
        while True:
            try:
                bname.decode()
                break
            except UnicodeDecodeError:
                bname = bname[:-1]
        room -= len(bname) + 16
    fmt_name = None
    order = ["fmt", "feat", "unknown", "unknown2", "bitmaps", "datafile"]
    rng.shuffle(order)
    external = False
    for kind in order:
        if rng.random() < 0.5:
            continue
        if kind == "fmt":
            fmt_name = rng.choice(["qcow2", "raw", "QCOW2", "vmdk", "luks", "x" * rng.randrange(1, 17)])
            d, m = fmt_name.encode(), wq.EXT_BACKING_FORMAT
        elif kind == "feat":
            d, m = bytes(rng.randrange(256) for _ in range(48 * rng.randrange(0, 4))), wq.EXT_FEATURE_TABLE
        elif kind == "bitmaps":
            d, m = struct.pack(">IIQQ", rng.getrandbits(32), 0, rng.getrandbits(64), rng.getrandbits(64)), wq.EXT_BITMAPS
        elif kind == "datafile":
            if ver != 3:
                continue
            d, m = _text(rng, rng.randrange(1, 40)).encode(), wq.EXT_DATA_FILE
            external = True
        else:
            d, m = bytes(rng.randrange(256) for _ in range(rng.randrange(0, 41))), rng.choice([0x11111111, 0x7E57AB1E, 0xFFFFFFFE, 0x00000001])
        e = wq.extension(m, d)
        if len(e) < room - 64:
            exts_spec.append((kind, m, d))
            room -= len(e)
        elif kind == "datafile":
            external = False
        elif kind == "fmt":
            fmt_name = None  # the extension did not fit the header cluster and was not written
    nsnap = rng.choice([0, 1, 2, 3, 7, 20]) if with_snaps else 0
    kinds = [rng.choice("NU") for _ in range(ncl)]
    views = [wq.make_view(rng, size=size, cluster_bits=cb, kinds=kinds, extl2=False, tag=rng.getrandbits(40))]
    metas = []
    for i in range(nsnap):
        skinds = [rng.choice("NU") for _ in range(ncl)]
        if ncl >= 70 and rng.random() < 0.6:
            cut = rng.randrange(1, ncl // 2)  # taken when the disk was smaller
            skinds = skinds[:cut] + ["U"] * (ncl - cut)
        views.append(wq.make_view(rng, size=size, cluster_bits=cb, kinds=skinds, extl2=False, tag=rng.getrandbits(40)))
        extra_size = rng.choice([0, 16, 16, 24, 24, 32, 40, 48, 61])
        metas.append({"id": _text(rng, rng.randrange(1, 14), rng.choice(["0123456789ab", "0123456789ab", "12snäp日😀-"])).encode(), "name": _text(rng, rng.randrange(0, 40)).encode(),
                      "extra_size": extra_size, "disk_size": rng.getrandbits(63), "vm_state_large": rng.getrandbits(64), "icount": rng.getrandbits(64),
                      "date_sec": rng.getrandbits(32), "date_nsec": rng.getrandbits(30), "vm_clock": rng.getrandbits(64), "vm_state_size": rng.getrandbits(32),
                      "extra_tail": bytes(rng.randrange(256) for _ in range(max(0, extra_size - 24)))})
    hl = 72 if ver == 2 else rng.choice([104, 112, 128])
    datafile_named = [d for k, m, d in exts_spec if k == "datafile"]
    exts = [wq.extension(m, d) for k, m, d in exts_spec if k != "datafile"]
    compat, autoclear = rng.getrandbits(3), rng.getrandbits(2)
    img, dataf, meta = wq.build(rng, cluster_bits=cb, size=size, views=views, version=ver, header_length=hl, extensions=exts, backing_name=bname,
                                external_data=external and bool(datafile_named), data_file_name=datafile_named[0] if datafile_named else None,
                                placement="shuffle", snapshots_meta=metas, l1_extra=rng.choice([0, 2]), compat=compat, autoclear=autoclear,
                                refcount_order=rng.choice([4, 4, 3, 6]), rand_info=False, ext_end_marker=rng.random() < 0.7, snap_short_l1=rng.random() < 0.7)
    ext_on = external and bool(datafile_named)
    q = _open(QCow2, as_handle(img.to_bytes()), data_file=as_handle(dataf.to_bytes()) if ext_on else None,
              backing_file=ALLOW_NO_BACKING_FILE if bname else None)
    c.eq("size", q.size, size)
    c.eq("cluster_bits", q.cluster_bits, cb)
    c.eq("cluster_size", q.cluster_size, cs)
    c.eq("header.version", q.header.version, ver)
    c.eq("header.l1_size", q.header.l1_size, meta["l1_size"])
    c.eq("header.l1_table_offset", q.header.l1_table_offset, meta["l1_offset"])
    c.eq("header.nb_snapshots", q.header.nb_snapshots, nsnap)
    c.eq("header.snapshots_offset", q.header.snapshots_offset, meta["snapshots_offset"])
    c.eq("header.backing_file_size", q.header.backing_file_size, len(bname or b""))
    c.eq("header.header_length", q.header.header_length, hl)
    # the compression type is a header field of its own only when the header is long enough to hold it (more than 104 bytes); every
    # image written here uses deflate, whatever follows a 104-byte header
    c.eq("compression_type", int(q.compression_type), 0)
    if ver == 3:
        c.eq("header.compatible_features", q.header.compatible_features, compat)
        c.eq("header.autoclear_features", q.header.autoclear_features, autoclear)
        c.eq("header.incompatible_features", q.header.incompatible_features, meta["incompat"])
    c.eq("auto_backing_file", q.auto_backing_file, bname.decode() if bname else None)
    c.eq("backing_format", q.backing_format, fmt_name, norm=lambda v: v.lower() if isinstance(v, str) else v)
    feat = [d for k, m, d in exts_spec if k == "feat"]
    c.eq("feature_table", q.feature_table, feat[0] if feat else None)
    if ext_on:
        c.eq("image_data_file", q.image_data_file, datafile_named[0].decode())
    bm = [d for k, m, d in exts_spec if k == "bitmaps"]
    if bm:
        nb, _, dsz, doff = struct.unpack(">IIQQ", bm[0])
        c.eq("bitmap_header.nb_bitmaps", q.bitmap_header and q.bitmap_header.nb_bitmaps, nb)
        c.eq("bitmap_header.bitmap_directory_size", q.bitmap_header and q.bitmap_header.bitmap_directory_size, dsz)
        c.eq("bitmap_header.bitmap_directory_offset", q.bitmap_header and q.bitmap_header.bitmap_directory_offset, doff)
    unk = [(m, d) for k, m, d in exts_spec if k.startswith("unknown")]
    c.eq("unknown_extensions (magic, data)", [(e.magic, bytes(d)) for e, d in q.unknown_extensions], unk)
    cnt["header_extensions_compared"] = len(exts_spec)
    if with_snaps:
        o = call(lambda: q.snapshots)
        if not o.ok:
            raise _OpenFailed(o)
        snaps = o.value
        c.eq("len(snapshots)", len(snaps), nsnap)
        for i, (s, m) in enumerate(zip(snaps, metas)):
            c.eq(f"snapshots[{i}].id_str", s.id_str, m["id"].decode())
            c.eq(f"snapshots[{i}].name", s.name, m["name"].decode())
            c.eq(f"snapshots[{i}].header.l1_table_offset", s.header.l1_table_offset, meta["l1_infos"][i + 1][0])
            c.eq(f"snapshots[{i}].header.l1_size", s.header.l1_size, meta["l1_infos"][i + 1][1])
            l1_off_, l1_n_ = meta["l1_infos"][i + 1]
            c.eq(f"snapshots[{i}].l1_table", list(s.l1_table), list(struct.unpack(f">{l1_n_}Q", img.read_at(l1_off_, 8 * l1_n_))))
            cnt["snapshot_l1_tables_shorter_than_active"] = cnt.get("snapshot_l1_tables_shorter_than_active", 0) + int(l1_n_ < meta["l1_infos"][0][1])
            for f, key in (("date_sec", "date_sec"), ("date_nsec", "date_nsec"), ("vm_clock_nsec", "vm_clock"), ("vm_state_size", "vm_state_size"), ("extra_data_size", "extra_size")):
                c.eq(f"snapshots[{i}].header.{f}", getattr(s.header, f), m[key])
            if m["extra_size"] >= 8:
                c.eq(f"snapshots[{i}].extra.vm_state_size_large", s.extra.vm_state_size_large, m["vm_state_large"])
            if m["extra_size"] >= 16:
                c.eq(f"snapshots[{i}].extra.disk_size", s.extra.disk_size, m["disk_size"])
            if m["extra_size"] >= 24:
                c.eq(f"snapshots[{i}].extra.icount", s.extra.icount, m["icount"])
            if m["extra_size"] > 24:
                want = (struct.pack(">QQQ", m["vm_state_large"], m["disk_size"], m["icount"]) + m["extra_tail"])[: m["extra_size"]].ljust(m["extra_size"], b"\xEE")[24:]
                c.eq(f"snapshots[{i}].unknown_extra", s.unknown_extra, want)
        cnt["qcow2_snapshots_compared"] = len(metas)
        res["sets"]["snapshot_counts"] = [nsnap]
        res["sets"]["snapshot_extra_sizes"] = sorted({m["extra_size"] for m in metas})
        res["sets"]["snapshot_idname_len_mod8"] = sorted({(len(m["id"]) + len(m["name"])) % 8 for m in metas})
    res["sets"]["extension_len_mod8"] = sorted({len(d) % 8 for _, _, d in exts_spec})
    sample.update({"version": ver, "cluster_bits": cb, "extensions": [(k, len(d)) for k, _, d in exts_spec], "backing_name_len": len(bname or b""), "snapshots": nsnap})


def _qcow2_snap(rng, ctx, c, cnt, sample, res):
    _qcow2(rng, ctx, c, cnt, sample, res, with_snaps=True)


# ----------------------------------------------------------------------------------------- VHDX


def _vhdx(rng, ctx, c, cnt, sample, res, parent=False):
    from dissect.hypervisor.disk.vhdx import VHDX

    ss = rng.choice([512, 4096])
    bs = rng.choice([1, 2, 8, 32]) << 20
    n = rng.randrange(1, 5)
    s1, s2 = rng.choice([(1, 2), (2, 1), (7, 7 + rng.randrange(1, 1 << 40)), (rng.getrandbits(63) + 2, 5), (0, 1), (1 << 63, (1 << 63) - 1)])
    disk_id = bytes(rng.randrange(256) for _ in range(16))
    pss = rng.choice([512, 4096])
    d = Path(ctx.tmpdir())
    loc = None
    ents = []
    if parent:
        pid = bytes(rng.randrange(256) for _ in range(16))
        psf, _, pmeta = wvhdx.build(rng, block_size=bs, sector_size=ss, nblocks=n, states=[0] * n, tag=1, checksums=False, disk_id=pid)
        pname = _text(rng, rng.randrange(1, 20), "abcé 日😀-_") .strip() or "p"
        pname += ".vhdx"
        nested = rng.random() < 0.4
        if nested:
            # the reference names a sub-directory; an unrelated disk of the same name sits next to the child
            sub = (_text(rng, rng.randrange(1, 8), "abc é").strip() or "base")
            (d / sub).mkdir()
            psf.write_to(d / sub / pname)
            wvhdx.build(rng, block_size=bs, sector_size=ss, nblocks=n + 1, states=[0] * (n + 1), tag=9, checksums=False)[0].write_to(d / pname)
            ents = [("relative_path", ".\\" + sub + "\\" + pname)]
        else:
            psf.write_to(d / pname)
            ents = [("relative_path", ".\\" + pname)]
        extra_keys = ["parent_linkage", "parent_linkage2", "absolute_win32_path", "volume_path"] + [_text(rng, rng.randrange(1, 12), "abcxyz_") for _ in range(rng.randrange(0, 4))]
        for k in dict.fromkeys(extra_keys):
            if rng.random() < 0.7:
                v_ = _text(rng, rng.randrange(0, 60))
                if rng.random() < 0.15:
                    # the strings are UTF-16-LE as stored; a value or key may begin with any character, also U+FEFF or U+FFFE
                    # (which a byte-order-sniffing decoder would eat or take as a cue)
                    v_ = rng.choice(["\ufeff", "\ufffe"]) + v_
                if rng.random() < 0.05 and k not in ("parent_linkage", "parent_linkage2", "absolute_win32_path", "volume_path"):
                    k = rng.choice(["\ufeff", "\ufffe"]) + k
                ents.append((k, v_))
        rng.shuffle(ents)
        loc = wvhdx.parent_locator(ents, layout=rng.choice(["interleaved", "keys-first", "values-first", "reversed", "shuffled", "padded"]), rng=rng)
    tail = rng.randrange(0, bs // ss) if rng.random() < 0.5 else 0
    lg = bytes(rng.randrange(1, 256) for _ in range(16))  # a header may name an active log (image copied while attached)
    sf, layer, meta = wvhdx.build(rng, block_size=bs, sector_size=ss, nblocks=n, tail_cut_sectors=tail, states=[0] * n, tag=2, seqs=(s1, s2),
                                  stale="valid", has_parent=parent, locator=loc, disk_id=disk_id, physical_sector_size=pss,
                                  meta_item_order=rng.choice([None, "shuffle", "rev"]), item_gap=rng.choice([0, 8, 256]), checksums=False,
                                  leave_alloc=rng.random() < 0.5, meta_table_order=rng.choice([None, "shuffle", "rev"]),
                                  log_guids=rng.choice([(None, None), (lg, None), (None, lg), (lg, lg)]))
    if parent:
        cp = d / "child.avhdx"
        sf.write_to(cp)
        v = _open(VHDX, cp)
    else:
        v = _open(VHDX, as_handle(sf))
    c.eq("size", v.size, meta["size"])
    c.eq("block_size", v.block_size, bs)
    c.eq("sector_size", v.sector_size, ss)
    c.eq("id", v.id, _uuid.UUID(bytes_le=disk_id))
    c.eq("has_parent", bool(v.has_parent), parent)
    c.eq("header.sequence_number (highest of the two copies)", v.header.sequence_number, max(s1, s2))
    c.eq("headers[].sequence_number", [h.sequence_number for h in v.headers], [s1, s2])
    c.eq("header.file_write_guid", bytes(v.header.file_write_guid), bytes.fromhex(meta["fw"]))
    c.eq("header.data_write_guid", bytes(v.header.data_write_guid), bytes.fromhex(meta["dw"]))
    if parent:
        c.eq("parent_locator.entries", v.parent_locator.entries, dict(ents))
        c.eq("parent_locator.type", v.parent_locator.type, _uuid.UUID(bytes_le=wvhdx.VHDX_LOCATOR_TYPE))
        c.eq("parent.size", v.parent.size if v.parent else None, pmeta["size"])
        c.eq("parent.id (the disk the stored relative path names)", v.parent.id if v.parent else None, _uuid.UUID(bytes_le=pid))
        cnt["parent_in_subdirectory_with_decoy"] = int(nested)
        cnt["locator_entries_compared"] = len(ents)
    sample.update({"block": bs, "sector": ss, "seqs": [s1, s2], "locator_entries": len(ents)})


def _vhdx_parent(rng, ctx, c, cnt, sample, res):
    _vhdx(rng, ctx, c, cnt, sample, res, parent=True)


# ----------------------------------------------------------------------------------------- VMDK


ODD_SEPARATORS = "\u2028\u2029\x85\x0b\x0c\x1c\x1d\x1e"


def _odd(rng, s: str, p: float = 0.2) -> str:
    """Now and then a character inside the value that some line-splitting routines (not the format, whose lines end in LF)
    treat as a line end."""
    if len(s) >= 2 and rng.random() < p:
        i = rng.randrange(1, len(s))
        return s[:i] + "a" + rng.choice(ODD_SEPARATORS) + "b" + s[i:]
    return s


def _descriptor_model(rng):
    attr = {"version": "1", "CID": f"{rng.getrandbits(32):08x}", "parentCID": "ffffffff", "createType": rng.choice(["monolithicSparse", "vmfs", "twoGbMaxExtentFlat", "streamOptimized"])}
    extra = {}
    for _ in range(rng.randrange(0, 4)):
        extra[_text(rng, rng.randrange(1, 12), "abcdefXYZ")] = _odd(rng, _text(rng, rng.randrange(1, 30), "abc XYZ-0189/é日😀").strip() or "v")
    ddb = {}
    for k in ("ddb.virtualHWVersion", "ddb.geometry.cylinders", "ddb.geometry.heads", "ddb.adapterType", "ddb.uuid", "ddb.longContentID", "ddb.toolsVersion"):
        if rng.random() < 0.7:
            ddb[k] = _text(rng, rng.randrange(1, 40), "0123456789abcdef -").strip() or "0"
    for _ in range(rng.randrange(0, 3)):
        ddb["ddb." + _text(rng, rng.randrange(1, 10), "abcXYZ.")] = _odd(rng, _text(rng, rng.randrange(1, 20), "abc 123é").strip() or "x")
    exts = []
    for j in range(rng.randrange(1, 6)):
        kind = rng.choice(["SPARSE", "FLAT", "VMFS", "VMFSSPARSE", "SESPARSE", "ZERO"])
        name = _odd(rng, _text(rng, rng.randrange(1, 20), "abc 019-_é日😀#()").strip() or "d", 0.15) + f"-{j}.vmdk"
        if rng.random() < 0.2:
            # an inner quote followed by a blank and a few words (looks like the end of the quoted name, is not)
            name = rng.choice(['copy of "web 01" (old)', 'vm "restored', 'a" 7 b', 'q" 0', 'x" 1 2 y']) + f"-{j}.vmdk"
        sectors = rng.choice([1, rng.getrandbits(20), rng.getrandbits(40)])
        start = rng.choice([None, 0, rng.getrandbits(20)]) if kind in ("FLAT", "VMFS") else None
        exts.append({"access": rng.choice(["RW", "RDONLY", "NOACCESS"]), "sectors": sectors, "type": kind, "filename": None if kind == "ZERO" else name, "start": start})
    return attr, extra, ddb, exts


def _render(attr, extra, ddb, exts, rng):
    lines = []
    for e in exts:
        ln = f'{e["access"]} {e["sectors"]} {e["type"]}'
        if e["filename"] is not None:
            ln += f' "{e["filename"]}"'
        if e["start"] is not None:
            ln += f' {e["start"]}'
        lines.append(ln)
    return wvmdk.descriptor_text(lines, cid=attr["CID"], parent_cid=attr["parentCID"], create_type=attr["createType"], extra=extra, ddb=ddb,
                                 crlf=rng.random() < 0.4, comments=rng.random() < 0.7, spacing=rng.choice(["", " "]))


def _check_descriptor(c, dsc, attr, extra, ddb, exts, cnt):
    want_attr = dict(attr)
    want_attr.update(extra)
    c.eq("descriptor.attr", dict(dsc.attr), want_attr)
    c.eq("descriptor.ddb", dict(dsc.ddb), ddb)
    c.eq("len(descriptor.extents)", len(dsc.extents), len(exts))
    for i, (g, e) in enumerate(zip(dsc.extents, exts)):
        c.eq(f"extents[{i}].access_mode", g.access_mode, e["access"])
        c.eq(f"extents[{i}].sectors", g.sectors, e["sectors"])
        c.eq(f"extents[{i}].type", g.type, e["type"])
        c.eq(f"extents[{i}].filename", g.filename, e["filename"])
        c.eq(f"extents[{i}].start_sector", g.start_sector or None, e["start"] or None)
    c.eq("descriptor.sectors", dsc.sectors, sum(e["sectors"] for e in exts))
    cnt["extent_lines_compared"] = cnt.get("extent_lines_compared", 0) + len(exts)


def _vmdk_desc(rng, ctx, c, cnt, sample, res):
    from dissect.hypervisor.disk.vmdk import DiskDescriptor

    attr, extra, ddb, exts = _descriptor_model(rng)
    text = _render(attr, extra, ddb, exts, rng)
    dsc = _open(DiskDescriptor.parse, text)
    _check_descriptor(c, dsc, attr, extra, ddb, exts, cnt)
    sample.update({"extent_lines": len(exts), "ddb_keys": len(ddb), "text_head": text[:160]})


def _vmdk_embedded(rng, ctx, c, cnt, sample, res):
    from dissect.hypervisor.disk.vmdk import VMDK

    attr, extra, ddb, exts = _descriptor_model(rng)
    text = _render(attr, extra, ddb, exts, rng)
    exact = rng.random() < 0.35
    if exact:
        # the descriptor fills its sectors to the last byte: no NUL terminator, no trailing line break
        text = text.rstrip("\r\n")
        nl = "\r\n" if "\r\n" in text else "\n"
        first, rest = text.split(nl, 1)
        pad = (-(len(text.encode()) + 1 + len(nl))) % SECTOR
        text = first + nl + "#" + "-" * pad + nl + rest
        assert len(text.encode()) % SECTOR == 0
    grain = rng.choice([1, 8, 16, 128])
    ngte = rng.choice([64, 512, 1024])
    cap = rng.randrange(1, 5000)
    stream = rng.random() < 0.3
    if stream:
        sf, layer, meta = wvmdk.build_stream_optimized(rng, capacity=cap, grain=max(grain, 8), ngte=ngte, tag=3, descriptor=text)
        grain = max(grain, 8)
    else:
        sf, layer, meta = wvmdk.build_hosted(rng, capacity=cap, grain=grain, ngte=ngte, placement="shuffle", tag=3, descriptor=text, version=rng.choice([1, 2, 3]),
                                             desc_exact=exact)
    v = _open(VMDK, as_handle(sf.to_bytes()))
    d0 = v.disks[0]
    c.eq("size", v.size, cap * SECTOR)
    c.eq("sector_count", v.sector_count, cap)
    c.eq("extent.header.capacity", d0.header.capacity, cap)
    c.eq("extent.header.grain_size", d0.header.grain_size, grain)
    c.eq("extent.header.num_grain_table_entries", d0.header.num_grain_table_entries, ngte)
    c.eq("extent.header.flags", d0.header.flags, meta["flags"])
    _check_descriptor(c, d0.descriptor, attr, extra, ddb, exts, cnt)
    c.eq("descriptor.raw", d0.descriptor.raw, text)
    cnt["embedded_descriptor_fills_its_sectors"] = int(exact)
    sample.update({"embedded": True, "stream_optimized": stream, "extent_lines": len(exts)})


# ----------------------------------------------------------------------------------------- VHD / VDI / HDS / HDD


def _vhd(rng, ctx, c, cnt, sample, res):
    from dissect.hypervisor.disk.vhd import VHD

    if rng.random() < 0.4:
        nsec = rng.randrange(1, 3000)
        legacy = rng.random() < 0.5
        sf, layer, meta = wvhd.build_fixed(rng, nsectors=nsec, legacy=legacy, tag=1)
        v = _open(VHD, as_handle(sf.to_bytes()))
        c.eq("size", v.size, nsec * SECTOR)
        c.eq("disk.footer.current_size", v.disk.footer.current_size, nsec * SECTOR)
        c.eq("disk.footer.unique_id", bytes(v.disk.footer.unique_id), bytes.fromhex(meta["uid"]))
        c.eq("disk.footer.disk_type", v.disk.footer.disk_type, 2)
        c.eq("disk.footer.cookie", bytes(v.disk.footer.cookie), b"conectix")
        c.eq("disk.footer.data_offset", v.disk.footer.data_offset, 0xFFFFFFFFFFFFFFFF)
        sample.update({"type": "fixed", "legacy_footer": legacy})
        return
    bs = rng.choice([512, 4096, 1 << 16, 2 << 20])
    n = rng.randrange(1, 20 if bs < (1 << 20) else 4)
    extra = rng.choice([0, 3])
    sf, layer, meta = wvhd.build_dynamic(rng, block_size=bs, nblocks=n, tail_cut_sectors=rng.randrange(0, bs // SECTOR), tag=1,
                                         header_off=512 * rng.randrange(1, 9), table_gap=rng.randrange(0, 4), extra_entries=extra,
                                         stale_copy=rng.random() < 0.4)
    v = _open(VHD, as_handle(sf.to_bytes() if sf.end < (16 << 20) else sf))
    c.eq("size", v.size, meta["size"])
    c.eq("disk.footer.current_size", v.disk.footer.current_size, meta["size"])
    c.eq("disk.footer.unique_id", bytes(v.disk.footer.unique_id), bytes.fromhex(meta["uid"]))
    c.eq("disk.footer.disk_type", v.disk.footer.disk_type, 3)
    c.eq("disk.footer.data_offset", v.disk.footer.data_offset, meta["header_off"])
    c.eq("disk.header.block_size", v.disk.header.block_size, bs)
    c.eq("disk.header.max_table_entries", v.disk.header.max_table_entries, meta["max_entries"])
    c.eq("disk.header.table_offset", v.disk.header.table_offset, meta["table_off"])
    c.eq("disk.header.cookie", bytes(v.disk.header.cookie), b"cxsparse")
    sample.update({"type": "dynamic", "block_size": bs})


def _vdi(rng, ctx, c, cnt, sample, res):
    from dissect.hypervisor.disk.vdi import VDI

    bs = rng.choice([512, 4096, 1 << 16, 1 << 20])
    n = rng.randrange(1, 30 if bs < (1 << 20) else 4)
    uid = bytes(rng.randrange(256) for _ in range(16))
    puid = bytes(rng.randrange(256) for _ in range(16))
    desc = _text(rng, rng.randrange(0, 100), "abc XYZ 0189").encode()
    sf, layer, meta = wvdi.build(rng, block_size=bs, nblocks=n, tail_cut=rng.randrange(0, bs), tag=1, blocks_offset=rng.choice([456, 512, 4096]),
                                 data_gap=512 * rng.randrange(0, 9), uuid=uid, parent_uuid=puid, description=desc, image_type=rng.choice([1, 2, 4]))
    v = _open(VDI, as_handle(sf.to_bytes()))
    c.eq("size", v.size, meta["size"])
    c.eq("block_size", v.block_size, bs)
    c.eq("data_offset", v.data_offset, meta["data_offset"])
    c.eq("sector_size", v.sector_size, 512)
    c.eq("header.DiskSize", v.header.DiskSize, meta["size"])
    c.eq("header.BlocksInHDD", v.header.BlocksInHDD, n)
    c.eq("header.BlocksOffset", v.header.BlocksOffset, meta["blocks_offset"])
    c.eq("header.UUIDVDI", bytes(v.header.UUIDVDI), uid)
    c.eq("header.UUIDParent", bytes(v.header.UUIDParent), puid)
    c.eq("header.ImageDescription", bytes(v.header.ImageDescription).rstrip(b"\0"), desc)
    c.eq("map", list(v.map), meta["map"])
    sample.update({"block_size": bs, "blocks": n})


def _hds(rng, ctx, c, cnt, sample, res):
    from dissect.hypervisor.disk.hdd import HDS

    ver = rng.choice([1, 2])
    ms = rng.choice([1, 8, 16, 2048])
    n = rng.randrange(1, 40 if ms < 2048 else 4)
    in_use = rng.random() < 0.5
    sf, layer, meta = whds.build_hds(rng, version=ver, m_sectors=ms, nclusters=n, tail_cut_sectors=rng.randrange(0, ms), tag=1,
                                     unaligned_v1=rng.random() < 0.5, first_block_gap=rng.randrange(0, 4), in_use=in_use)
    v = _open(HDS, as_handle(sf.to_bytes() if sf.end < (16 << 20) else sf))
    c.eq("size", v.size, meta["size"])
    c.eq("cluster_size", v.cluster_size, ms * SECTOR)
    c.eq("in_use", v.in_use, in_use)
    c.eq("data_offset (sectors)", v.data_offset, meta["first_block_field"])
    c.eq("header.m_Sectors", v.header.m_Sectors, ms)
    c.eq("header.m_Size", v.header.m_Size, n)
    c.eq("bat", list(v.bat), meta["bat"])
    c.eq("header.m_Sig", bytes(v.header.m_Sig), whds.SIG_V1 if ver == 1 else whds.SIG_V2)
    sample.update({"version": ver, "cluster_sectors": ms})


def _hdd_meta(h):
    dsc = h.descriptor
    return {
        "storages": [(s.start, s.end, [(str(im.guid), im.type, im.file) for im in s.images]) for s in dsc.storage_data.storages],
        "shots": [(str(s.guid), str(s.parent)) for s in dsc.snapshots.shots],
        "top": str(dsc.snapshots.top_guid),
    }


def _hdd_opened(rng, ctx, c, cnt, sample, res):
    """The descriptor metadata of a disk whose streams have been opened (relocated absolute image paths, snapshot
    chains): still what DiskDescriptor.xml stores."""
    from vf import chains

    if rng.random() < 0.5:
        o = call(chains.hdd_abs, rng, ctx)
        if not o.ok:
            raise _OpenFailed(o)
        op = o.value
        stored = op.info["stored_file"]
        m0 = _hdd_meta(op.hdd)
        c.eq("images[0].file after open()", m0["storages"][0][2][0][2], stored)
        guids = [None]
        sample["relocation"] = op.info["variant"]
    else:
        o = call(chains.hdd_snapshots, rng, ctx, depth=rng.choice([1, 2, 3]), top_mode=rng.choice(["default", "explicit"]), nstorages=rng.choice([1, 2]))
        if not o.ok:
            raise _OpenFailed(o)
        op = o.value
        guids = [g for g, _ in op.levels]
    from dissect.hypervisor.disk.hdd import HDD

    fresh = _hdd_meta(_open(HDD, op.hdd.path))
    c.eq("descriptor metadata after the first open()", _hdd_meta(op.hdd), fresh)
    c.eq("virtual size of the opened disk (highest storage end, whatever the order of the Storage elements)", op.stream.size, op.model.size)
    for rep in range(3):
        st = call(op.hdd.open, rng.choice(guids))
        if not st.ok:
            raise _OpenFailed(st)
        call(st.value.read, 4096)
        m = _hdd_meta(op.hdd)
        c.eq(f"storage list after open() #{rep + 2}", m["storages"], fresh["storages"])
        c.eq(f"snapshot list after open() #{rep + 2}", m["shots"], fresh["shots"])
        c.eq(f"top GUID after open() #{rep + 2}", m["top"], fresh["top"])
    cnt["hdd_metadata_after_open_checks"] = 1


def _hdd_desc(rng, ctx, c, cnt, sample, res):
    from dissect.hypervisor.disk.hdd import HDD

    d = Path(ctx.tmpdir()) / (_text(rng, rng.randrange(1, 10), "abc é日") .strip() or "x")
    d = d.with_suffix(".hdd")
    nshots = rng.randrange(1, 6)
    guids = ["{" + str(_uuid.UUID(int=rng.getrandbits(128))) + "}" for _ in range(nshots)]
    default_top = rng.random() < 0.4
    if default_top:
        guids[-1] = whds.DEFAULT_TOP
    shots = [(g, guids[i - 1] if i else whds.NULL_GUID) for i, g in enumerate(guids)]
    rng.shuffle(shots)
    storages = []
    start = 0
    for j in range(rng.randrange(1, 5)):
        nsec = rng.randrange(1, 1 << 30)
        images = []
        for g in guids:
            images.append({"guid": g, "type": rng.choice(["Compressed", "Plain"]), "file": (_text(rng, rng.randrange(1, 20), "abc 019.{}é日😀&<>'\"").strip() or "f") + ".hds"})
        rng.shuffle(images)
        storages.append({"start": start, "end": start + nsec, "images": images})
        start += nsec
    order = list(storages)
    rng.shuffle(order)
    top = None if default_top and rng.random() < 0.5 else guids[-1]
    whds.write_hdd_dir(str(d), order, shots, top_guid=top)
    h = _open(HDD, d if rng.random() < 0.6 else d / "DiskDescriptor.xml")
    dsc = h.descriptor
    got_st = dsc.storage_data.storages
    c.eq("len(storages)", len(got_st), len(order))
    for i, (g, e) in enumerate(zip(got_st, order)):
        c.eq(f"storages[{i}].start", g.start, e["start"])
        c.eq(f"storages[{i}].end", g.end, e["end"])
        c.eq(f"storages[{i}].images", [(im.guid, im.type, im.file) for im in g.images], [(_uuid.UUID(im["guid"]), im["type"], im["file"]) for im in e["images"]])
    c.eq("snapshots.shots", [(s.guid, s.parent) for s in dsc.snapshots.shots], [(_uuid.UUID(a), _uuid.UUID(b)) for a, b in shots])
    c.eq("snapshots.top_guid", dsc.snapshots.top_guid, _uuid.UUID(top) if top else None)
    chain = call(dsc.get_snapshot_chain, _uuid.UUID(guids[-1]))
    c.eq("get_snapshot_chain(top)", chain.value if chain.ok else chain.brief(), [_uuid.UUID(g) for g in reversed(guids)])
    sample.update({"storages": len(order), "shots": nshots, "top_guid_explicit": top is not None})
