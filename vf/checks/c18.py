"""C18 - VM configuration files: the disk list is exactly the VM's hard disks."""
from __future__ import annotations

import io

from vf.core import rng_for
from vf.monitors import call
from vf.writers import vmconfig as w

ID = "C18"
LEVEL = "exploration"
STEP_BUDGET = 5_000_000
ANCHOR_FILES = [f"dissect/hypervisor/descriptor/{m}.py" for m in ("vmx", "ovf", "vbox", "pvs")]
RULE = (
    "A device-model generator rendered to four syntaxes. VMX: devices on scsi/sata/ide/nvme with any bus:unit (the same "
    "bus:unit reused across bus classes), device types from the real vocabulary (disks: absent, disk, scsi-hardDisk, "
    "ata-hardDisk in any casing; non-disks: cdrom-image, cdrom-raw, atapi-cdrom), controllers, floppies, ethernet, "
    "serial and unrelated a.b.c keys, random key casing, quoting and spacing styles, comments (incl. commented-out "
    "device lines), blank lines, CRLF, stale duplicate assignments before the real one, shuffled order. OVF: "
    "References/DiskSection/VirtualSystem graphs with arbitrary namespace prefixes (default or prefixed element "
    "namespace), ids beginning with o/v/f characters, ovf:/disk/, ovf:/file/ and prefix-less host resources, items of "
    "resource type 17 vs CD/DVD/floppy items (14/15/16) that also reference the disk section. VirtualBox: nested media "
    "registries (Machine or Global), HardDisk vs DVD/Floppy images, formats and types mixed. PVS: Hdd vs "
    "CdRom/Fdd/other devices at any depth. Oracle: the model's hard-disk backing files (sorted list for VMX, multiset "
    "otherwise; VirtualBox: all Normal VDI disks at any registry depth present, no DVD/floppy image, anything else only "
    "from the 'unspecified' set of non-VDI / non-Normal / type-less child disks); file names contain blanks, '#', '=', ';', quotes "
    "and non-ASCII characters; dictionary laws for VMX.parse. Non-trivial: >= 1 disk "
    "and >= 1 non-disk device; distinct = (syntax, device model)."
)
ASSUMPTIONS = [
    "dot-less VMX keys that begin with a device-class name, OVF Disk elements without fileRef, disk items without HostResource and RDM device types are not generated (outside the statement)",
    "VirtualBox disks that are not (type Normal, format VDI) or that carry no type attribute are 'unspecified': they may or may not be listed",
    "held means: held on the executions listed, not verified for all configurations",
]
MINIMA = {"quick": {"documents": 2000, "vmx_bus_unit_collisions": 50, "ovf_removable_items_pointing_at_disks": 50}, "thorough": {"documents": 300000}}
MECH = "config.disks"


def plan(tier: str, seed: int) -> list[dict]:
    n = 130 if tier == "quick" else 20000
    return [{"syntax": s, "i": i} for s in ("vmx", "ovf", "vbox", "pvs") for i in range(n)]


def _twins(syn, rng, res):
    """Two descriptors alive in one process that use the same identifiers/keys for different files: each object's
    answer is its own, also when the first is asked only after the second was built."""
    cnt = res["cnt"]
    if syn == "ovf":
        from dissect.hypervisor.descriptor.ovf import OVF

        text, want = w.gen_ovf(rng)
        ext, ctor = ".vmdk", (lambda t: OVF(io.StringIO(t)))
    elif syn == "pvs":
        from dissect.hypervisor.descriptor.pvs import PVS

        text, want, _ = w.gen_pvs(rng)
        ext, ctor = ".hdd", (lambda t: PVS(io.StringIO(t)))
    else:
        from dissect.hypervisor.descriptor.vmx import VMX

        text, want, _, _ = w.gen_vmx(rng)
        ext, ctor = ".vmdk", VMX.parse
    text2 = text.replace(ext, "-twin" + ext)
    want2 = [n.replace(ext, "-twin" + ext) for n in want]
    o = call(lambda: (ctor(text), ctor(text2)))
    if not o.ok:
        res["viol"].append({"what": f"{syn}: parse failed: {o.brief()}", "mech": MECH, "detail": {"tb": o.tb}})
        return
    a, b = o.value
    got_b = call(lambda: sorted(b.disks()))
    got_a = call(lambda: sorted(a.disks()))
    got_b2 = call(lambda: sorted(b.disks()))
    cnt["twin_descriptor_checks"] = cnt.get("twin_descriptor_checks", 0) + 1
    for label, got, exp in (("first (asked after the second was built)", got_a, sorted(want)), ("second", got_b, sorted(want2)), ("second, asked again", got_b2, sorted(want2))):
        if not got.ok or got.value != exp:
            res["viol"].append({"what": f"{syn}: with two descriptors alive, the {label} does not report its own disks", "mech": MECH,
                                "detail": {"got": got.value if got.ok else got.brief(), "exp": exp}})
            return


class ListingNotRepeatable(Exception):
    pass


def _listed(cls, text, rng, res):
    """Build the descriptor object from a handle; what the caller does with the handle afterwards (closing it at the end of a
    `with` block, re-using the buffer for the next file) is its own business and does not change the configuration's disks."""
    fh = io.StringIO(text)
    obj = cls(fh)
    after = rng.choice(["nothing", "nothing", "close", "reuse"])
    if after == "close":
        fh.close()
    elif after == "reuse":
        fh.seek(0)
        fh.truncate()
        fh.write("<Envelope/>")
        fh.seek(0)
    res["sets"].setdefault("handle_after_construction", []).append(after)
    first = sorted(obj.disks())
    # the list is a function of the configuration: asking again - also after a caller only peeked at the first entry of an
    # earlier listing - gives the same list
    if rng.random() < 0.5:
        next(iter(obj.disks()), None)
    again = sorted(obj.disks())
    res["cnt"]["repeated_listings"] = res["cnt"].get("repeated_listings", 0) + 1
    if again != first:
        raise ListingNotRepeatable(f"disks() gave {first} and then {again} on the same object")
    return first


def run(case: dict, ctx) -> dict:
    res = {"cnt": {}, "viol": [], "sets": {}}
    cnt = res["cnt"]
    rng = rng_for(ctx.seed, ID, case["syntax"], case["i"])
    syn = case["syntax"]
    nontrivial = 0
    sample = None
    for rep in range(5):  # several documents per case keeps process overhead low
        if res["viol"]:
            break
        cnt["documents"] = cnt.get("documents", 0) + 1
        if syn == "vmx":
            from dissect.hypervisor.descriptor.vmx import VMX

            text, disks, final, devices = w.gen_vmx(rng)
            o = call(lambda: VMX.parse(text))
            if not o.ok:
                res["viol"].append({"what": f"parse failed: {o.brief()}", "mech": MECH, "detail": {"tb": o.tb, "text": text[:400]}})
                break
            v = o.value
            if v.attr != final:
                diff = [k for k in set(v.attr) | set(final) if v.attr.get(k) != final.get(k)]
                res["viol"].append({"what": "VMX dictionary law broken (case-insensitive keys / comments ignored / last assignment wins)", "mech": "vmx.dict",
                                    "detail": {"key": diff[0], "got": v.attr.get(diff[0]), "exp": final.get(diff[0])}})
                break
            o2 = call(v.disks)
            if not o2.ok:
                res["viol"].append({"what": f"disks() raised: {o2.brief()}", "mech": MECH, "detail": {"tb": o2.tb, "text": text[:500]}})
                break
            if o2.value != disks:
                res["viol"].append({"what": "VMX disk list is not exactly the hard disks' backing files", "mech": MECH,
                                    "detail": {"got": o2.value, "exp": disks, "devices": {f"{c}{b}:{u}": (d["type"], d["file"]) for (c, b, u), d in devices.items()}}})
                break
            addr = {}
            for (c, b, u) in devices:
                addr.setdefault((b, u), set()).add(c)
            cnt["vmx_bus_unit_collisions"] = cnt.get("vmx_bus_unit_collisions", 0) + sum(1 for s in addr.values() if len(s) > 1)
            nontrivial += int(bool(disks) and any(not d["disk"] for d in devices.values()))
            sample = sample or {"syntax": "vmx", "disks": disks, "devices": len(devices), "text_head": text[:200]}
            if rep == 0:
                # the same configuration inside an encrypted VMX: before unlocking the devices are not visible, after unlocking
                # (on the same object, also when the list was already asked for) the list is the full one
                from vf.writers import vmxcrypt as wvx

                dkey = bytes(rng.randrange(256) for _ in range(32))
                blob, p = wvx.phrase_pair(rng, "pw", dkey, cipher="AES-256", mac="HMAC-SHA-1", kdf="PBKDF2-HMAC-SHA-1", rounds=3, salt=bytes(rng.randrange(256) for _ in range(16)))
                clear = ['displayName = "sealed"']
                clear_disks = []
                sealed_disk_devs = [k_ for k_, d_ in devices.items() if d_["disk"] and d_["file"]]
                if sealed_disk_devs and rng.random() < 0.5:
                    # the clear-text part still carries an assignment for a device that the sealed dictionary assigns too (left
                    # over from before the VM was encrypted): once unlocked, the sealed assignment is the later one
                    cls_, b_, u_ = rng.choice(sealed_disk_devs)
                    clear += [f'{cls_}{b_}:{u_}.fileName = "left-over-clear-text.vmdk"', f'{cls_}{b_}:{u_}.present = "TRUE"']
                    clear_disks = ["left-over-clear-text.vmdk"]
                    cnt["encrypted_vmx_with_overlapping_clear_text_keys"] = cnt.get("encrypted_vmx_with_overlapping_clear_text_keys", 0) + 1
                enc = wvx.vmx_text(wvx.keysafe_text([wvx.pair_text(blob, p)]), wvx.seal(dkey, text.encode(), "HMAC-SHA-1", bytes(rng.randrange(256) for _ in range(16))),
                                   clear)
                oe = call(lambda: VMX.parse(enc))
                if oe.ok:
                    ve = oe.value
                    before = call(ve.disks) if rng.random() < 0.7 else None
                    un = call(ve.unlock_with_phrase, "pw")
                    after = call(ve.disks)
                    cnt["encrypted_vmx_disk_lists"] = cnt.get("encrypted_vmx_disk_lists", 0) + 1
                    if before is not None and before.ok and before.value != clear_disks:
                        res["viol"].append({"what": "a locked VMX reported disks that only exist inside the encrypted part", "mech": MECH, "detail": {"got": before.value}})
                        break
                    if not un.ok or not after.ok or after.value != disks:
                        res["viol"].append({"what": "VMX disk list after unlocking is not exactly the hard disks' backing files", "mech": MECH,
                                            "detail": {"got": after.value if after.ok else after.brief(), "exp": disks, "asked_before_unlock": before is not None, "unlock": un.brief()}})
                        break
        elif syn == "ovf":
            from dissect.hypervisor.descriptor.ovf import OVF

            text, want = w.gen_ovf(rng, lead=rng.choice(w.LEADS))
            o = call(lambda: _listed(OVF, text, rng, res))
            if not o.ok:
                res["viol"].append({"what": f"OVF raised: {o.brief()}", "mech": MECH, "detail": {"tb": o.tb, "text": text[:1500]}})
                break
            if o.value != want:
                res["viol"].append({"what": "OVF disk list is not exactly the hard disks' backing files", "mech": MECH,
                                    "detail": {"got": o.value, "exp": want, "text": text[:1500]}})
                break
            cnt["ovf_removable_items_pointing_at_disks"] = cnt.get("ovf_removable_items_pointing_at_disks", 0) + text.count("ResourceType>15<") + text.count("ResourceType>16<") + text.count("ResourceType>14<")
            nontrivial += int(bool(want))
            sample = sample or {"syntax": "ovf", "disks": want, "text_head": text[:300]}
        elif syn == "vbox":
            from dissect.hypervisor.descriptor.vbox import VBox

            text, must, maybe, never = w.gen_vbox(rng, lead=rng.choice(w.LEADS[:2]))
            o = call(lambda: _listed(VBox, text, rng, res))
            if not o.ok:
                res["viol"].append({"what": f"VBox raised: {o.brief()}", "mech": MECH, "detail": {"tb": o.tb, "text": text[:800]}})
                break
            got = list(o.value)
            rest = list(got)
            missing = []
            for m in must:
                if m in rest:
                    rest.remove(m)
                else:
                    missing.append(m)
            bad = [g for g in rest if g in never or g not in maybe]
            if missing or bad:
                res["viol"].append({"what": "VirtualBox disk list: a Normal VDI hard disk is missing or a non-hard-disk image is listed", "mech": MECH,
                                    "detail": {"missing": missing, "wrongly_listed": bad, "got": got, "text": text[:800]}})
                break
            nontrivial += int(bool(must) and bool(never))
            sample = sample or {"syntax": "vbox", "must": must, "unspecified": maybe[:4], "never": never}
        else:
            from dissect.hypervisor.descriptor.pvs import PVS

            text, want, never = w.gen_pvs(rng, lead=rng.choice(w.LEADS[:2]))
            o = call(lambda: _listed(PVS, text, rng, res))
            if not o.ok:
                res["viol"].append({"what": f"PVS raised: {o.brief()}", "mech": MECH, "detail": {"tb": o.tb, "text": text[:800]}})
                break
            if o.value != want:
                res["viol"].append({"what": "PVS disk list is not exactly the Hdd devices", "mech": MECH, "detail": {"got": o.value, "exp": want}})
                break
            nontrivial += int(bool(want) and bool(never))
            sample = sample or {"syntax": "pvs", "disks": want, "non_disks": never}
    cnt[f"{syn}_documents"] = cnt.get("documents", 0)
    if not res["viol"] and syn in ("ovf", "pvs", "vmx"):
        _twins(syn, rng, res)
    res["nontrivial"] = nontrivial > 0
    res["sig"] = (syn, case["i"])
    res["sample"] = sample
    return res
