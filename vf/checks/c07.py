"""C07 - Layer precedence in differencing, backing and snapshot chains."""
from __future__ import annotations

import gzip
import os
import shutil
from pathlib import Path

from vf import chains
from vf.core import SECTOR, BytesModel, Layer, Model, as_handle, rng_for
from vf.diskcheck import compare_reads, continuation_reads, fault_retry_reads, gen_requests, mismatch_detail
from vf.monitors import call

ID = "C07"
LEVEL = "exploration"
CONTRACTS = True  # icontract postconditions on AlignedStream.read/peek/seek fire during this workload too
STEP_BUDGET = 30_000_000
HANDLE_CLOSE_CHECK = True
OPEN_INTERPOSE = True  # files the library opens by path (parents, extents) are wrapped in observing proxies
ANCHOR_FILES = [f"dissect/hypervisor/disk/{m}.py" for m in ("vhdx", "vmdk", "hdd", "qcow2", "vdi")]
RULE = (
    "Chains of depth 1..4 built from layered content models on real temp directories: VHDX differencing (partially "
    "present blocks with per-sector bitmaps of every class - uniform bytes, single bits, alternating, runs, random; "
    "parent located by relative path, sub-directory, absolute win32 path; locator strings in any storage order; read "
    "through bytes and read_sectors at every start-bit residue 0..7, 512/4096 sectors), VMDK delta extents (descriptor, "
    "embedded-descriptor and multi-extent children over flat/sparse/SE-sparse parents; parent in the same directory, "
    "a sibling directory, via a Windows-style hint), Parallels snapshot chains (shuffled Shot/Image order, Plain base, "
    "explicit non-default TopGUID, open(guid) of intermediate snapshots, multi-storage), QCOW2 (QCow2-on-QCow2 backing "
    "incl. extended L2 over a raw base shorter than the image, ALLOW_NO_BACKING_FILE, internal snapshots opened and "
    "read interleaved with the active image), VDI parents; every configuration whose parent cannot be resolved must "
    "raise at open. Oracle: top-down overlay of the layer models per sector. Non-trivial: depth >= 2 with sectors "
    "served from >= 2 different layers; distinct = (format, depth, config, layer maps)."
    " Every stream additionally goes through: continuation sequences (read, visit elsewhere or have another user move the shared handles, resume at the earlier end / buffer end), reads under an injected transient backend I/O error followed by a retry on the same object (the failed call may raise; returned bytes must be right), and long reads (whole disk up to 24 MiB, else 6-24 MiB windows)."
)
ASSUMPTIONS = [
    "writers/content models as in C01..C06; layered semantics per each format's specification",
    "VDI takes its parent from the caller (nothing to resolve), so only its precedence clause is checked",
    "held means: held on the executions listed, not verified for all chains",
]
MINIMA = {"quick": {"reads_compared": 3000, "missing_parent_refusals": 10, "sectors_from_lower_layers": 20000,
                    "vhdx_partial_blocks": 40, "snapshot_view_reads": 100, "vhdx_beyond_first_chunk_cases": 3},
          "thorough": {"reads_compared": 300000}}
MECH = "chain.read"
DATA = os.path.join(os.environ.get("VF_REPO", "/repo"), "tests", "data")


def plan(tier: str, seed: int) -> list[dict]:
    rng = rng_for(seed, ID, "plan")
    cases = []
    mult = 1 if tier == "quick" else 50
    i = 0
    for _ in range(14 * mult):
        cases.append({"k": "vhdx-diff", "i": (i := i + 1), "depth": rng.choice([2, 2, 3, 4]), "ss": rng.choice([512, 512, 4096]),
                      "cfg": rng.choice(["relative", "relative", "absolute", "subdir", "both-decoy", "nested-decoy"]), "mode": rng.choice(["path", "str", "fh"]), "weight": 6})
    for _ in range(5 * mult):
        cases.append({"k": "vhdx-diff", "i": (i := i + 1), "depth": rng.choice([2, 3]), "ss": rng.choice([512, 512, 4096]) if tier != "quick" else 512,
                      "cfg": "relative", "mode": "path", "chunks": True, "weight": 8})
    for _ in range(40 * mult):
        cases.append({"k": "vmdk-delta", "i": (i := i + 1), "depth": rng.choice([2, 2, 3]),
                      "cfg": rng.choice(["samedir", "samedir", "sibling", "windows"]), "child": rng.choice(["descriptor", "descriptor", "embedded", "multi"])})
    for _ in range(40 * mult):
        cases.append({"k": "hdd-snapshots", "i": (i := i + 1), "depth": rng.choice([1, 2, 3, 4]), "top": rng.choice(["default", "explicit", "explicit"]),
                      "nst": rng.choice([1, 1, 2, 3]), "plain": rng.random() < 0.3, "guid": rng.choice(["top", "top", "pick"]), "linked": rng.random() < 0.3})
    for _ in range(40 * mult):
        cases.append({"k": "qcow2-chain", "i": (i := i + 1), "depth": rng.choice([1, 2, 2, 3]), "ext": rng.random() < 0.4,
                      "raw": rng.choice([None, "shorter", "ragged", "longer"]), "optout": rng.random() < 0.15})
    for _ in range(30 * mult):
        cases.append({"k": "qcow2-snapshots", "i": (i := i + 1), "n": rng.choice([1, 2, 3, 5]), "ext": rng.random() < 0.3})
    for _ in range(30 * mult):
        cases.append({"k": "vdi-parent", "i": (i := i + 1), "depth": rng.choice([2, 2, 3, 4])})
    fmts = ["vhdx", "vmdk", "vmdk-embedded", "hdd-image", "hdd-shot", "qcow2", "vmdk-embedded-unnamed", "vhdx-unnamed", "hdd-image-entry", "vmdk-no-hint", "vhdx-foreign-locator"]
    for j in range(18 * mult):
        cases.append({"k": "missing", "i": (i := i + 1), "fmt": fmts[j % len(fmts)]})
    cases.append({"k": "fixture-avhdx", "i": 0, "weight": 10})
    return cases


def _layer_hits(model, reqs, res, cap: int = 4000) -> None:
    hits = {}
    seen = 0
    for off, n in reqs:
        if n <= 0 or not hasattr(model, "source"):
            continue
        s0, s1 = off // SECTOR, min((off + n - 1) // SECTOR, s0_max(model))
        step = max(1, (s1 - s0 + 1) // 16)
        for s in range(s0, s1 + 1, step):
            src = model.source(s)
            hits[src] = hits.get(src, 0) + step
            seen += 1
        if seen > cap:
            break
    cnt = res["cnt"]
    for k, v in hits.items():
        cnt[f"sectors_from_layer_{k}"] = cnt.get(f"sectors_from_layer_{k}", 0) + v
    cnt["sectors_from_lower_layers"] = cnt.get("sectors_from_lower_layers", 0) + sum(v for k, v in hits.items() if k >= 1)
    res["_layers_hit"] = len(hits)


def s0_max(model) -> int:
    return max(0, (model.size - 1) // SECTOR)


def run(case: dict, ctx) -> dict:
    res = {"cnt": {}, "viol": [], "sets": {}}
    cnt = res["cnt"]
    rng = rng_for(ctx.seed, ID, case["k"], case["i"])
    k = case["k"]
    quick = ctx.tier == "quick"

    if k == "missing":
        return _missing(case, rng, ctx, res)
    if k == "fixture-avhdx":
        return _fixture(rng, ctx, res)
    if k == "qcow2-snapshots":
        return _snapshots(case, rng, ctx, res)

    if k == "vhdx-diff":
        o = call(chains.vhdx_diff, rng, ctx, depth=case["depth"], sector_size=case["ss"], parent_config=case["cfg"], open_mode=case["mode"],
                 beyond_chunk=case.get("chunks", False))
    elif k == "vmdk-delta":
        o = call(chains.vmdk_delta, rng, ctx, depth=case["depth"], parent_config=case["cfg"], child_kind=case["child"])
    elif k == "hdd-snapshots":
        o = call(chains.hdd_snapshots, rng, ctx, depth=case["depth"], top_mode=case["top"], nstorages=case["nst"], base_plain=case["plain"], open_guid=case["guid"], linked=case.get("linked", False))
    elif k == "qcow2-chain":
        o = call(chains.qcow2_chain, rng, ctx, depth=case["depth"], ext=case["ext"], raw_base=case["raw"], optout=case["optout"])
    else:
        o = call(chains.vdi_parent, rng, ctx, depth=case["depth"])
    if not o.ok:
        if "vf/" in (o.tb or "").split("dissect/hypervisor")[0] and "dissect/hypervisor" not in (o.tb or ""):
            raise o.exc  # failure inside the harness' own builders
        res["viol"].append({"what": f"open failed on a resolvable chain: {o.brief()}", "mech": MECH, "detail": {"tb": o.tb}})
        return res
    op = o.value
    if k == "hdd-snapshots":
        res["cnt"]["hdd_linked_clone_cases"] = int(bool(op.info.get("linked_clone")))
    s, model = op.stream, op.model
    if s.size != model.size:
        res["viol"].append({"what": "size mismatch", "mech": MECH, "detail": {"got": s.size, "exp": model.size}})
        return res
    units = [SECTOR * 8, 4096]
    if k == "vhdx-diff":
        units = [1 << 20, case["ss"], case["ss"] * 8]
    hot = op.info.get("hot_offsets", [])
    reqs, _ = gen_requests(rng, model.size, units, n_random=50 if quick else 160, max_len=(1 << 20) + 4096, pair_cap=200, extra=hot)
    for h_ in hot:
        for _ in range(4):
            reqs.append((max(0, h_ + rng.randrange(-70000, (1 << 20))), rng.randrange(1, 150000)))
    cnt["vhdx_beyond_first_chunk_cases"] = int(bool(hot))
    # small requests at sector granularity all over the disk: in layered images each of them needs its own per-block /
    # per-chunk metadata (sector bitmaps, grain tables of the layer and of its ancestors), which is what a fault should hit
    size_ = model.size
    small = [(rng.randrange(0, max(size_ - 4096, 1)) // 512 * 512, rng.choice([512, 1024, 4096])) for _ in range(40)] if size_ > 8192 else reqs
    fault_retry_reads(s, model, small, rng, res, MECH, n=8)  # cold caches
    continuation_reads(s, model, reqs, rng, res, MECH)
    fault_retry_reads(s, model, small, rng, res, MECH, n=8)
    compare_reads(s, model, reqs, res, MECH, byte_cap=(24 << 20))
    _layer_hits(model, reqs, res)
    if op.read_sectors is not None and not res["viol"]:
        ss = op.sector_size
        residues = set()
        for j in range(40 if quick else 120):
            s0 = rng.randrange(op.sector_limit)
            if hot and j % 2:
                s0 = min(max(0, rng.choice(hot) // ss + rng.randrange(-100, 2048)), op.sector_limit - 1)
            if j < 16:
                s0 = min((s0 // 8) * 8 + j % 8, op.sector_limit - 1)
            c = rng.randrange(1, min(op.sector_limit - s0, 200) + 1)
            o2 = call(op.read_sectors, s0, c)
            exp = model.expected(s0 * ss, c * ss)
            cnt["sector_reads_compared"] = cnt.get("sector_reads_compared", 0) + 1
            residues.add(s0 % 8)
            if not o2.ok:
                res["viol"].append({"what": f"read_sectors raised: {o2.brief()}", "mech": MECH, "detail": {"sector": s0, "count": c, "tb": o2.tb}})
                break
            if o2.value != exp:
                res["viol"].append({"what": "read_sectors content mismatch", "mech": MECH, "detail": mismatch_detail(s0 * ss, c * ss, o2.value, exp)})
                break
        res["sets"]["sector_start_residues_mod_8"] = sorted(residues)
    if k == "hdd-snapshots" and not res["viol"]:
        # the same HDD object opened again and again (same and other snapshots): every stream is its own view
        for rep in range(4):
            gid, lm = rng.choice(op.levels) if rep % 2 else op.levels[op.info["opened_depth"] - 1]
            o3 = call(op.hdd.open, gid)
            cnt["hdd_reopen_checks"] = cnt.get("hdd_reopen_checks", 0) + 1
            if not o3.ok:
                res["viol"].append({"what": f"re-opening a snapshot on the same HDD object failed: {o3.brief()}", "mech": MECH, "detail": {"tb": o3.tb}})
                break
            rq, _ = gen_requests(rng, lm.size, [4096], n_random=10, pair_cap=25)
            rq.append((0, lm.size))
            compare_reads(o3.value, lm, rq, res, MECH, byte_cap=8 << 20)
            if res["viol"]:
                res["viol"][-1]["what"] += f" (open #{rep + 2} on the same HDD object)"
                break
    cnt[f"{k}_cases"] = 1
    cnt["vhdx_partial_blocks"] = op.info.get("partial_blocks", 0)
    res["sets"]["depths"] = [f"{k}:{op.info.get('depth')}"]
    res["sets"]["parent_configs"] = [f"{k}:{op.info.get('config', op.info.get('top_mode', op.info.get('raw_base')))}"]
    res["nontrivial"] = res.pop("_layers_hit", 0) >= 2
    res["sig"] = (k, case["i"], str(sorted(op.info.items())))
    res["sample"] = {"format": k, "info": op.info, "size": model.size, "requests": reqs[:3]}
    return res


def _snapshots(case, rng, ctx, res):
    cnt = res["cnt"]
    o = call(chains.qcow2_snapshots, rng, ctx, nsnap=case["n"], ext=case["ext"])
    if not o.ok:
        res["viol"].append({"what": f"open failed: {o.brief()}", "mech": MECH, "detail": {"tb": o.tb}})
        return res
    q, models, size = o.value
    views = {0: q}
    # interleave: read the active image, open a snapshot, read both, revisit
    order = []
    for step in range(30 if ctx.tier == "quick" else 100):
        vi = rng.randrange(0, len(models))
        if vi not in views:
            # warm the active image's buffer at a random position first (a copied buffer must not leak)
            q.seek(rng.randrange(size))
            q.read(rng.randrange(1, 64))
            so = call(lambda: q.snapshots[vi - 1].open())
            if not so.ok:
                res["viol"].append({"what": f"snapshot open failed: {so.brief()}", "mech": MECH, "detail": {"tb": so.tb}})
                return res
            views[vi] = so.value
            if so.value.tell() != 0:
                res["viol"].append({"what": "fresh snapshot view not at position 0", "mech": MECH, "detail": {"tell": so.value.tell()}})
        st = views[vi]
        off = rng.choice([0, rng.randrange(size), (rng.randrange(size) // 8192) * 8192])
        n = rng.choice([16, 512, 5000, 70000])
        before = {j: v.tell() for j, v in views.items() if j != vi}
        o2 = call(lambda: (st.seek(off), st.read(n))[1])
        exp = models[vi].expected(off, n)
        cnt["reads_compared"] = cnt.get("reads_compared", 0) + 1
        cnt["snapshot_view_reads"] = cnt.get("snapshot_view_reads", 0) + int(vi != 0)
        order.append(vi)
        if not o2.ok:
            res["viol"].append({"what": f"read raised: {o2.brief()}", "mech": MECH, "detail": {"view": vi, "tb": o2.tb}})
            break
        if o2.value != exp:
            d = mismatch_detail(off, n, o2.value, exp)
            d["view"] = vi
            d["matches_other_view"] = [j for j, m in enumerate(models) if j != vi and m.expected(off, n) == o2.value]
            res["viol"].append({"what": "snapshot/active view served another view's bytes", "mech": MECH, "detail": d})
            break
        for j, p in before.items():
            if views[j].tell() != p:
                res["viol"].append({"what": "reading one view moved another view's position", "mech": MECH, "detail": {"view": j}})
                return res
    if not res["viol"]:
        # every view once more from end to end (the tail beyond a snapshot's own tables included)
        for vi, st in sorted(views.items()):
            o3 = call(lambda: (st.seek(0), st.read(size))[1])
            cnt["reads_compared"] = cnt.get("reads_compared", 0) + 1
            if not o3.ok:
                res["viol"].append({"what": f"read raised: {o3.brief()}", "mech": MECH, "detail": {"view": vi, "tb": o3.tb}})
                break
            if o3.value != models[vi].expected(0, size):
                d = mismatch_detail(0, size, o3.value, models[vi].expected(0, size))
                d["view"] = vi
                res["viol"].append({"what": "snapshot/active view served another view's bytes", "mech": MECH, "detail": d})
                break
    cnt["qcow2-snapshots_cases"] = 1
    res["nontrivial"] = len(set(order)) >= 2
    res["sig"] = ("qcow2-snapshots", case["i"])
    res["sample"] = {"format": "qcow2 internal snapshots", "views": len(models), "visit_order": order[:12]}
    return res


def _missing(case, rng, ctx, res):
    """Parents that cannot be resolved: the constructor / open() must raise."""
    cnt = res["cnt"]
    fmt = case["fmt"]
    if fmt == "vhdx":
        o = call(chains.vhdx_diff, rng, ctx, depth=2, parent_config="missing", open_mode=rng.choice(["path", "fh"]))
    elif fmt == "vmdk":
        o = call(chains.vmdk_delta, rng, ctx, depth=2, parent_config="missing", child_kind="descriptor")
    elif fmt == "vmdk-embedded":
        o = call(chains.vmdk_delta, rng, ctx, depth=2, parent_config="missing", child_kind="embedded")
    elif fmt == "vmdk-embedded-unnamed":
        # a delta extent (parentCID set, parent named in the embedded descriptor) handed over as an unnamed stream,
        # alone or as a one-element list: there is nothing to resolve the parent against
        from dissect.hypervisor.disk.vmdk import VMDK
        from vf.writers import vmdk as wvmdk

        cap = rng.choice([64, 200, 1000])
        text = wvmdk.descriptor_text([f'RW {cap} SPARSE "child.vmdk"'], cid="22222222", parent_cid=rng.choice(["11111111", "0a0b0c0d", "fffffffe"]),
                                     parent_hint=rng.choice(["base.vmdk", "/vmfs/volumes/x/base.vmdk", "../base/base.vmdk"]))
        sf, _, _ = wvmdk.build_hosted(rng, capacity=cap, grain=8, ngte=64, tag=rng.getrandbits(32), descriptor=text)
        fh = as_handle(sf.to_bytes(), name=False)
        assert not hasattr(fh, "name")
        o = call(lambda: VMDK([fh] if rng.random() < 0.5 else fh).read(512))
    elif fmt == "vmdk-no-hint":
        # a delta disk (parentCID set) whose descriptor does not say where the parent is; descriptor file or embedded, opened by path
        from dissect.hypervisor.disk.vmdk import VMDK
        from vf.writers import vmdk as wvmdk

        d = Path(ctx.tmpdir())
        cap = rng.choice([64, 200, 1000])
        embedded = rng.random() < 0.5
        text = wvmdk.descriptor_text([f'RW {cap} SPARSE "{"child.vmdk" if embedded else "child-s001.vmdk"}"'], cid="22222222",
                                     parent_cid=rng.choice(["11111111", "0a0b0c0d", "fffffffe"]), parent_hint=None)
        sf, _, _ = wvmdk.build_hosted(rng, capacity=cap, grain=8, ngte=64, tag=rng.getrandbits(32), descriptor=text if embedded else None)
        if embedded:
            sf.write_to(str(d / "child.vmdk"))
        else:
            sf.write_to(str(d / "child-s001.vmdk"))
            (d / "child.vmdk").write_text(text)
        # a plausible parent lies next to it: it must not be guessed, and the child must not be shown alone
        (d / "base.vmdk").write_bytes((d / ("child.vmdk" if embedded else "child-s001.vmdk")).read_bytes())
        o = call(lambda: VMDK(d / "child.vmdk").read(512))
    elif fmt == "vhdx-foreign-locator":
        # a differencing VHDX whose parent locator is of a type the reader does not know (not the VHDX locator): its entries
        # cannot be interpreted, so the parent cannot be found - although a plausible base.vhdx lies next to the child
        from dissect.hypervisor.disk.vhdx import VHDX
        from vf.writers import vhdx as wvx

        d = Path(ctx.tmpdir())
        base, _, _ = wvx.build(rng, block_size=1 << 20, sector_size=512, nblocks=3, states=[6, 6, 6], tag=rng.getrandbits(32), checksums=False)
        base.write_to(d / "base.vhdx")
        ltype = bytes(rng.randrange(256) for _ in range(16))
        loc = wvx.parent_locator([("parent_linkage", "{83ed0ec1-24c8-49a6-a959-5e4bd1288015}"), ("relative_path", ".\\base.vhdx")], locator_type=ltype, rng=rng)
        sf, _, _ = wvx.build(rng, block_size=1 << 20, sector_size=512, nblocks=3, states=[6, 0, 0], tag=rng.getrandbits(32), has_parent=True, locator=loc, checksums=False)
        sf.write_to(d / "child.avhdx")
        o = call(lambda: VHDX(d / "child.avhdx").read(4096))
    elif fmt == "vhdx-unnamed":
        # a differencing VHDX handed over as a nameless stream: there is no directory to look for the parent in
        from dissect.hypervisor.disk.vhdx import VHDX
        from vf.writers import vhdx as wvx

        loc = wvx.parent_locator([("parent_linkage", "{83ed0ec1-24c8-49a6-a959-5e4bd1288015}"), ("relative_path", ".\\base.vhdx"),
                                  ("absolute_win32_path", "C:\\vm\\base.vhdx")], rng=rng)
        sf, _, _ = wvx.build(rng, block_size=1 << 20, sector_size=512, nblocks=3, states=[6, 0, 7], tag=rng.getrandbits(32), has_parent=True, locator=loc,
                             partial={2: chains.bitmap_flags(rng, (1 << 20) // 512)}, checksums=False)
        fh = as_handle(sf.to_bytes() if rng.random() < 0.5 else sf, name=False)
        o = call(lambda: VHDX(fh).read(4096))
    elif fmt == "qcow2":
        from dissect.hypervisor.disk.qcow2 import QCow2
        from vf.writers import qcow2 as wq

        view = wq.make_view(rng, size=8 * 512, cluster_bits=9, kinds="NUNUNUNU", extl2=False, tag=1)
        img, _, _ = wq.build(rng, cluster_bits=9, size=8 * 512, views=[view], backing_name=b"gone.qcow2")
        o = call(QCow2, as_handle(img.to_bytes()))
    else:
        from dissect.hypervisor.disk.hdd import HDD
        from vf.writers import hds as whds

        d = Path(ctx.tmpdir()) / "m.hdd"
        g1, g2 = "{11111111-1111-1111-1111-111111111111}", whds.DEFAULT_TOP
        sf, layer, meta = whds.build_hds(rng, version=2, m_sectors=8, nclusters=4, tag=3)
        storages = [{"start": 0, "end": 32, "images": [{"guid": g2, "type": "Compressed", "file": "top.hds"}, {"guid": g1, "type": "Compressed", "file": "base.hds"}]}]
        if fmt == "hdd-image":
            files = {"top.hds": sf}  # the parent's image file is absent
            shots = [(g2, g1), (g1, whds.NULL_GUID)]
        elif fmt == "hdd-image-entry":
            # two storages; one of them has no image entry for the parent snapshot (all files are there)
            files = {"top.hds": sf, "base.hds": sf, "top2.hds": sf, "base2.hds": sf}
            shots = [(g2, g1), (g1, whds.NULL_GUID)]
            second = {"start": 32, "end": 64, "images": [{"guid": g2, "type": "Compressed", "file": "top2.hds"}, {"guid": g1, "type": "Compressed", "file": "base2.hds"}]}
            storages.append(second)
            victim = rng.choice(storages)
            victim["images"] = [im for im in victim["images"] if im["guid"] != g1]
        else:
            files = {"top.hds": sf, "base.hds": sf}
            shots = [(g2, g1)]  # the parent shot is not listed
        whds.write_hdd_dir(str(d), storages, shots, files=files)
        o = call(lambda: HDD(d).open())
    cnt["missing_parent_cases"] = 1
    if o.ok:
        res["viol"].append({"what": f"child presented alone although its parent cannot be resolved ({fmt})", "mech": "chain.missing-parent", "detail": {"fmt": fmt}})
    else:
        cnt["missing_parent_refusals"] = 1
        res["sets"]["refusal_exceptions"] = [f"{fmt}:{o.exc_name()}"]
    res["nontrivial"] = True
    res["sig"] = ("missing", fmt, case["i"])
    res["sample"] = {"missing_parent": fmt, "outcome": o.brief()}
    return res


def _fixture(rng, ctx, res):
    """The real differencing.avhdx fixture over a synthetic parent named as its locator asks."""
    from dissect.hypervisor.disk.vhdx import VHDX
    from vf.checks.c03 import RefVHDX
    from vf.writers import vhdx as wv
    import struct

    d = Path(ctx.tmpdir())
    raw = gzip.open(os.path.join(DATA, "differencing.avhdx.gz")).read()
    ref = RefVHDX(raw)
    # learn the relative parent name through an independent parse of the locator
    rt = raw[3 * 65536 : 4 * 65536]
    n = struct.unpack_from("<I", rt, 8)[0]
    moff = None
    for i in range(n):
        e = rt[16 + 32 * i : 48 + 32 * i]
        if e[:16] == wv.META_GUID:
            moff = struct.unpack_from("<Q", e, 16)[0]
    cntm = struct.unpack_from("<H", raw, moff + 10)[0]
    loc = None
    for i in range(cntm):
        e = raw[moff + 32 + 32 * i : moff + 64 + 32 * i]
        if e[:16] == wv.PARENT_LOCATOR:
            o_, ln = struct.unpack_from("<II", e, 16)
            loc = raw[moff + o_ : moff + o_ + ln]
    kvc = struct.unpack_from("<H", loc, 18)[0]
    ents = {}
    for i in range(kvc):
        ko, vo, kl, vl = struct.unpack_from("<IIHH", loc, 20 + 12 * i)
        ents[loc[ko : ko + kl].decode("utf-16-le")] = loc[vo : vo + vl].decode("utf-16-le")
    rel = ents["relative_path"].replace("\\", "/")
    child = d / "differencing.avhdx"
    child.write_bytes(raw)
    nblocks = -(-ref.size // ref.block_size)
    # a sparse synthetic parent: present only under (some of) the child's partially-present / not-present blocks
    child_states = [struct.unpack_from("<Q", raw, ref.bat_off + 8 * (b + b // ref.ratio))[0] & 7 for b in range(nblocks)]
    want = [b for b, st_ in enumerate(child_states) if st_ == 7][:6] + rng.sample([b for b, st_ in enumerate(child_states) if st_ == 0] or [0], k=min(3, max(1, child_states.count(0))))
    states = [6 if b in want else 0 for b in range(nblocks)]
    psf, player, pmeta = wv.build(rng, block_size=ref.block_size, sector_size=ref.ss, nblocks=nblocks, states=states,
                                  tail_cut_sectors=(nblocks * ref.block_size - ref.size) // ref.ss, placement="seq", tag=99, checksums=False)
    ppath = (d / rel)
    ppath.parent.mkdir(parents=True, exist_ok=True)
    psf.write_to(ppath)

    pm = Model(ref.size, [player])
    MBb = 1 << 20

    class Overlay:
        size = ref.size

        def expected(self, off, n):
            n = min(n, self.size - off)
            out = bytearray()
            pos = off
            ss = ref.ss
            while pos < off + n:
                b, o_ = divmod(pos, ref.block_size)
                e = struct.unpack_from("<Q", raw, ref.bat_off + 8 * (b + b // ref.ratio))[0]
                st = e & 7
                if st == 7:
                    take = min(ss - pos % ss, off + n - pos)
                    sb = struct.unpack_from("<Q", raw, ref.bat_off + 8 * (((b // ref.ratio) + 1) * ref.ratio + b // ref.ratio))[0]
                    sic = (b % ref.ratio) * (ref.block_size // ss) + o_ // ss
                    bit = raw[(sb >> 20) * MBb + sic // 8] >> (sic % 8) & 1
                    if bit:
                        start = (e >> 20) * MBb + o_
                        out += raw[start : start + take]
                    else:
                        out += pm.expected(pos, take)
                else:
                    take = min(ref.block_size - o_, off + n - pos)
                    if st == 6:
                        start = (e >> 20) * MBb + o_
                        out += raw[start : start + take]
                    elif st == 0:
                        out += pm.expected(pos, take)
                    else:
                        out += b"\0" * take
                pos += take
            return bytes(out)

    o = call(VHDX, child)
    if not o.ok:
        res["viol"].append({"what": f"fixture child with a resolvable parent failed to open: {o.brief()}", "mech": MECH, "detail": {"tb": o.tb}})
        return res
    model = Overlay()
    extra = [b * ref.block_size + d for b in want for d in (0, 4096 * 3, ref.block_size // 2)]
    extra += [b * ref.block_size for b, st_ in enumerate(child_states) if st_ in (6, 7)][:12]
    reqs, _ = gen_requests(rng, model.size, [ref.block_size, ref.ss * 8], n_random=40, max_len=300_000, pair_cap=60, extra=extra)
    reqs += [(e_ + rng.randrange(0, 5000), rng.randrange(1, 200_000)) for e_ in extra]
    compare_reads(o.value, model, reqs, res, MECH, byte_cap=24 << 20)
    res["cnt"]["fixture_cases"] = 1
    res["nontrivial"] = True
    res["sig"] = ("fixture-avhdx",)
    res["sample"] = {"fixture": "differencing.avhdx over a synthetic parent", "relative_path": rel, "size": ref.size}
    return res
