"""C20 - vmtar: every member extracts to the bytes stored at its recorded data offset."""
from __future__ import annotations

import gzip
import hashlib
import io
import os
import tarfile

from vf.core import as_handle, rng_for
from vf.monitors import call
from vf.writers import vmtar as w

ID = "C20"
LEVEL = "exploration"
STEP_BUDGET = 5_000_000
ANCHOR_FILES = ["dissect/hypervisor/util/vmtar.py"]
RULE = (
    "Visor tar archives written by an independent writer (layout confirmed against the repository sample): 0..60 "
    "members - visor regular files (type flags '0', NUL and '7'; 0..300 KiB, data areas in any order, page-aligned / 512-aligned / unaligned, with "
    "gaps, two members sharing one equal data area, data areas at or beyond 2 GiB on a sparse backing object), "
    "directories, empty files with zero and non-zero recorded offsets, symlinks, ordinary ustar/GNU members with inline "
    "data interleaved between visor headers, GNU long names and ustar prefixes, trailing padding; plain and "
    "gzip-wrapped (single and several concatenated gzip members); plus pure non-visor archives made by the standard library and compared differentially with "
    "tarfile.open. Oracle: member list (names, types, sizes, order) equals the generated list and every regular member "
    "extracts to the bytes the writer put at its recorded data offset. Non-trivial: >= 2 visor files whose data order "
    "differs from header order, or a mix of visor and inline members; distinct = (member kinds, sizes, placement)."
)
ASSUMPTIONS = [
    "the harness's writer is a faithful reading of /bin/vmtar's layout as seen in the sample",
    "held means: held on the executions listed, not verified for all archives",
]
MINIMA = {"quick": {"members_extracted": 2500, "gzip_cases": 40, "longname_members": 60, "inline_std_members": 150, "far_offset_members": 10, "multi_member_gzip_cases": 10,
                    "old_style_or_contiguous_type_members": 100},
          "thorough": {"members_extracted": 250000}}
MECH = "vmtar"
DATA = os.path.join(os.environ.get("VF_REPO", "/repo"), "tests", "data")


def plan(tier: str, seed: int) -> list[dict]:
    n = 500 if tier == "quick" else 40000
    cases = [{"k": "visor", "i": i} for i in range(n)]
    cases += [{"k": "far", "i": i, "weight": 3} for i in range(40 if tier == "quick" else 300)]
    cases += [{"k": "stdlib", "i": i} for i in range(30 if tier == "quick" else 500)]
    cases.append({"k": "fixture", "i": 0})
    return cases


def gen_members(rng, nmax=60):
    n = rng.choice([0, 1, 2, 5, 12, rng.randrange(0, nmax + 1)])
    members = []
    names = set()
    dirs = [""]
    for j in range(n):
        kind = rng.choice(["file", "file", "file", "dir", "empty", "sym", "std", "std"])
        base = "".join(rng.choice("abcdefghXYZ0123_-.é") for _ in range(rng.randrange(1, 14)))
        parent = rng.choice(dirs)
        name = (parent + "/" if parent else "") + base
        long_mode = rng.random()
        m = {"kind": kind}
        if long_mode < 0.12:
            name = (parent + "/" if parent else "") + "L" * rng.randrange(90, 160) + base
            m["longname"] = True
            m["visor_longlink"] = rng.random() < 0.3
        elif long_mode < 0.2:
            # ustar prefix of any length up to the field's 155 bytes (its tail overlaps the visor offset field)
            name = "p" * rng.choice([rng.randrange(20, 120), rng.randrange(120, 156), 151, 152, 153, 154, 155]) + "/" + "s" * rng.randrange(1, 85) + base
            m["longname"] = True
            m["prefix"] = True
        elif j == 0 and kind in ("file", "std", "empty") and rng.random() < 0.15:
            # the archive's first bytes are its first member's name: one that begins like a compressed stream (gzip 1f 8b,
            # bzip2 "BZh", xz fd "7zXZ") is still a plain archive
            # (not 1f 8b 08: CPython's own tarfile.open lets the EOFError of its gzip trial escape on such an archive, so
            # there is no standard reader to agree with)
            name = rng.choice(["\x1f\udc8b", "\x1f\udc8b\x07", "BZh91AY&SY", "\udcfd7zXZ"]) + base
            m["magic_like_name"] = True
        if name in names or name.rstrip("/") in names:
            continue
        names.add(name.rstrip("/"))
        m["name"] = name
        if kind == "dir":
            dirs.append(name)
        elif kind == "sym":
            m["target"] = "".join(rng.choice("abc/.") for _ in range(rng.randrange(1, 30)))
        elif kind == "empty":
            m["offset"] = rng.choice([0, 0, 4096 * rng.randrange(1, 10)])
        else:
            size = rng.choice([1, 511, 512, 513, 4096, rng.randrange(1, 5000), rng.randrange(1, 300_000) if rng.random() < 0.15 else rng.randrange(1, 20000)])
            m["data"] = hashlib.shake_128(f"{j}/{size}/{rng.getrandbits(32)}".encode()).digest(size)
            m["text_pgs"] = rng.choice([0, 0, 3])
            m["word2"] = rng.choice([0, 0, 1, 0x1000, rng.getrandbits(32)])
            m["fixup_pgs"] = rng.choice([0, 0, 1])
        if kind in ("file", "std", "dir") and rng.random() < 0.12:
            # pax extended header records in front of the member; a size record repeats the member's size
            recs = [("mtime", f"{rng.randrange(1 << 31)}.{rng.randrange(10 ** 6)}"), ("comment", "c" * rng.randrange(0, 300)), ("uid", str(rng.randrange(1 << 22)))]
            recs = rng.sample(recs, rng.randrange(0, 3))
            if kind != "dir" and rng.random() < 0.7:
                recs.insert(rng.randrange(len(recs) + 1), ("size", None))
            m["pax"] = recs or [("comment", "x")]
            m["visor_pax"] = rng.random() < 0.3
            # the Solaris spelling of the extended header ('X') is read like the POSIX one ('x')
            m["pax_type"] = rng.choice([b"x", b"x", b"X"])
            if kind == "file" and any(k_ == "size" for k_, _ in recs) and rng.random() < 0.4:
                m["hdr_size_zero"] = True
            m["pax_first"] = rng.random() < 0.5
        if kind in ("file", "std"):
            m["mode"] = rng.choice([0o644, 0o644, 0o755, 0o664, 0o666, 0o775, 0o600, 0o444])
        if kind in ("file", "std", "empty") and not name.endswith("/"):
            # regular files may carry the old-style NUL type flag or the 'contiguous file' flag
            m["typeflag"] = rng.choice([b"0", b"0", b"0", b"\0", b"7"])
        members.append(m)
    # visor members that point back at (a slice of) the inline data of an earlier ordinary member
    stds = [i for i, m in enumerate(members) if m["kind"] == "std" and len(m["data"]) >= 2]
    for i, m in enumerate(members):
        earlier = [s_ for s_ in stds if s_ < i]
        if m["kind"] == "file" and earlier and rng.random() < 0.15:
            src = rng.choice(earlier)
            sd = members[src]["data"]
            delta = rng.choice([0, 0, rng.randrange(0, len(sd))])
            if delta == 0 and rng.random() < 0.3:
                continue  # offset 0 into the blob is fine, but keep some variety
            m["alias_of"], m["alias_delta"] = src, delta
            m["data"] = sd[delta : delta + rng.randrange(1, len(sd) - delta + 1)]
    # two members sharing one (equal) data area
    files = [i for i, m in enumerate(members) if m["kind"] == "file" and m.get("alias_of") is None]
    if len(files) >= 2 and rng.random() < 0.3:
        a, b = rng.sample(files, 2)
        members[b]["data"] = members[a]["data"]
        members[b]["share"] = a
    return members


def _listing(t):
    out = []
    for m in t.getmembers():
        kind = "dir" if m.isdir() else "sym" if m.issym() else "file" if m.isreg() else m.type
        out.append((m.name.rstrip("/"), kind, m.size, m))
    return out


def run(case: dict, ctx) -> dict:
    from dissect.hypervisor.util import vmtar

    res = {"cnt": {}, "viol": [], "sets": {}}
    cnt = res["cnt"]
    rng = rng_for(ctx.seed, ID, case["k"], case["i"])
    k = case["k"]
    if k == "fixture":
        raw = open(os.path.join(DATA, "test.vgz"), "rb").read()
        o = call(lambda: _listing(vmtar.open(fileobj=io.BytesIO(raw))))
        if not o.ok:
            res["viol"].append({"what": f"fixture failed: {o.brief()}", "mech": MECH, "detail": {"tb": o.tb}})
        cnt["fixture_cases"] = 1
        res["nontrivial"] = True
        res["sig"] = ("fixture",)
        res["sample"] = {"fixture": "test.vgz", "members": len(o.value) if o.ok else None}
        return res
    if k == "stdlib":
        # ordinary (non-visor) archives: must behave exactly like the standard reader
        buf = io.BytesIO()
        fmt = rng.choice([tarfile.USTAR_FORMAT, tarfile.GNU_FORMAT, tarfile.PAX_FORMAT])
        with tarfile.open(fileobj=buf, mode="w", format=fmt) as t:
            for j in range(rng.randrange(0, 25)):
                kind = rng.choice(["file", "file", "dir", "sym", "empty"])
                name = "".join(rng.choice("abcXYZ09_-./é") for _ in range(rng.randrange(1, 30))).strip("/.") or f"n{j}"
                if rng.random() < 0.15:
                    name = "L" * rng.randrange(101, 200) + name
                ti = tarfile.TarInfo(name)
                data = b""
                if kind == "dir":
                    ti.type = tarfile.DIRTYPE
                elif kind == "sym":
                    ti.type = tarfile.SYMTYPE
                    ti.linkname = "t" * rng.randrange(1, 150 if fmt != tarfile.USTAR_FORMAT else 90)
                elif kind == "file":
                    data = bytes(rng.getrandbits(8) for _ in range(rng.randrange(1, 3000)))
                ti.size = len(data)
                try:
                    t.addfile(ti, io.BytesIO(data))
                except ValueError:
                    continue
        raw = buf.getvalue()
        start = 0
        if rng.random() < 0.4:
            raw = gzip.compress(raw)
            cnt["gzip_cases"] = 1
        elif rng.random() < 0.5:
            # the archive does not start at offset 0 of the file object: it follows another archive or other data and the
            # handle is positioned at its first header (readers start where the handle stands)
            pre = io.BytesIO()
            with tarfile.open(fileobj=pre, mode="w", format=tarfile.USTAR_FORMAT) as tp:
                for j in range(rng.randrange(1, 4)):
                    ti = tarfile.TarInfo(f"earlier/{j}")
                    dd = bytes(rng.getrandbits(8) for _ in range(rng.randrange(1, 2000)))
                    ti.size = len(dd)
                    tp.addfile(ti, io.BytesIO(dd))
            prefix = pre.getvalue() if rng.random() < 0.6 else bytes(rng.getrandbits(8) for _ in range(512 * rng.randrange(1, 9)))
            start = len(prefix)
            raw = prefix + raw
            cnt["archives_not_at_offset_0"] = 1

        def at(pos):
            f_ = io.BytesIO(raw)
            f_.seek(pos)
            return f_

        ref = tarfile.open(fileobj=at(start))
        want = [(m.name, m.type, m.size, m.linkname, ref.extractfile(m).read() if m.isreg() else None) for m in ref.getmembers()]
        # TarFile() itself never decompresses: the plain class factory is only comparable on uncompressed archives
        opener = vmtar.open if (cnt.get("gzip_cases") or rng.random() < 0.6) else vmtar.VisorTarFile
        o = call(lambda: [(m.name, m.type, m.size, m.linkname, t2.extractfile(m).read() if m.isreg() else None)
                          for t2 in [opener(fileobj=at(start))] for m in t2.getmembers()])
        if not o.ok:
            res["viol"].append({"what": f"non-visor archive failed: {o.brief()}", "mech": MECH, "detail": {"tb": o.tb}})
        elif o.value != want:
            bad = next((i for i, (a, b) in enumerate(zip(o.value, want)) if a != b), min(len(o.value), len(want)))
            res["viol"].append({"what": "non-visor archive listed/extracted differently from the standard tar reader", "mech": MECH,
                                "detail": {"first_differing_member": bad, "got_members": len(o.value), "std_members": len(want)}})
        cnt["stdlib_cases"] = 1
        cnt["members_extracted"] = len(want)
        res["nontrivial"] = len(want) >= 2
        res["sig"] = ("stdlib", case["i"], len(want))
        res["sample"] = {"stdlib_archive_members": len(want), "format": fmt}
        return res

    members = gen_members(rng, 60 if k == "visor" else 12)
    far = k == "far"
    align = rng.choice([4096, 4096, 512, 0, 1 << 16])
    built, expected, offs = w.build(rng, members, data_order=rng.choice(["seq", "rev", "shuffle", "shuffle"]), align=align,
                                    trailing=rng.choice([0, 0, 512, 10240, 4096 * 3]), far=far, magic_tail=rng.choice([b"\0", b"\0", b" ", b"0"]))
    gz = False
    if far:
        fobj = as_handle(built)
    else:
        raw = built
        if rng.random() < 0.35:
            if rng.random() < 0.4 and len(raw) > 2:
                # several concatenated gzip members (cat a.gz b.gz), split anywhere
                cuts = sorted({rng.randrange(1, len(raw)) for _ in range(rng.randrange(1, 4))})
                parts = [raw[a:b] for a, b in zip([0] + cuts, cuts + [len(raw)])]
                raw = b"".join(gzip.compress(p_, compresslevel=1) for p_ in parts)
                cnt["multi_member_gzip_cases"] = 1
            else:
                raw = gzip.compress(raw, compresslevel=1)
            gz = True
        fobj = io.BytesIO(raw)
    o = call(lambda: vmtar.open(fileobj=fobj))
    if not o.ok:
        res["viol"].append({"what": f"open failed on a well-formed archive: {o.brief()}", "mech": MECH, "detail": {"tb": o.tb, "members": len(members)}})
        return res
    t = o.value
    o2 = call(_listing, t)
    if not o2.ok:
        res["viol"].append({"what": f"listing failed: {o2.brief()}", "mech": MECH, "detail": {"tb": o2.tb}})
        return res
    got = o2.value
    if [(n, kd, sz) for n, kd, sz, _ in got] != [(n, kd, sz) for n, kd, sz, _ in expected]:
        idx = next((i for i, (a, b) in enumerate(zip(got, expected)) if a[:3] != b[:3]), min(len(got), len(expected)))
        res["viol"].append({"what": "member list differs from the archive's headers", "mech": MECH,
                            "detail": {"listed": len(got), "stored": len(expected), "first_difference_at": idx,
                                       "got": str(got[idx][:3]) if idx < len(got) else None, "stored_entry": str(expected[idx][:3])[:200] if idx < len(expected) else None}})
        return res
    for (name, kind, size, m), (_, _, _, want) in zip(got, expected):
        if kind == "file":
            o3 = call(lambda: t.extractfile(m).read())
            cnt["members_extracted"] = cnt.get("members_extracted", 0) + 1
            if not o3.ok:
                res["viol"].append({"what": f"extractfile raised: {o3.brief()}", "mech": MECH,
                                    "detail": {"member": name[:60], "size": size, "offset_data": getattr(m, "offset_data", None), "tb": o3.tb}})
                break
            if o3.value != want:
                res["viol"].append({"what": "member does not extract to the bytes stored at its recorded data offset", "mech": MECH,
                                    "detail": {"member": name[:60], "size": size, "got_len": len(o3.value), "offset_data": getattr(m, "offset_data", None)}})
                break
        elif kind == "sym" and m.linkname != want:
            res["viol"].append({"what": "symlink target differs", "mech": MECH, "detail": {"member": name[:60]}})
            break
    safe = [(n_, w_) for (n_, kd_, sz_, _m), (_a, _b, _c, w_) in zip(got, expected)
            if kd_ == "file" and sz_ > 0 and not n_.startswith("/") and not ({"..", ".", ""} & set(n_.split("/"))) and "\\" not in n_ and "\0" not in n_ and len(n_) < 200]
    if not far and safe and not res["viol"] and case["i"] % 3 == 0:
        # extraction to disk while the medium fails: extract() either raises or leaves the stored bytes - it does not return
        # normally with a file that holds something else
        import os as _os

        from vf import core as _core

        name_, want_ = rng.choice(safe)
        fh2 = as_handle(raw)
        t2 = call(lambda: vmtar.open(fileobj=fh2))
        if t2.ok:
            dest = ctx.tmpdir()
            _core.arm_fault(rng.randrange(1, 5), "eio")
            try:
                ex = call(lambda: t2.value.extract(name_, path=dest, filter="fully_trusted"))
            finally:
                fired = _core.FAULT["countdown"] is None
                _core.arm_fault(None)
            cnt["extractions_under_io_errors"] = cnt.get("extractions_under_io_errors", 0) + int(fired)
            if ex.ok:
                p_out = _os.path.join(dest, name_)
                on_disk = open(p_out, "rb").read() if _os.path.isfile(p_out) else None
                if on_disk is not None and on_disk != want_ and [n2 for n2, _w in safe].count(name_) == 1:
                    res["viol"].append({"what": "extract() returned normally although the medium failed, and left other bytes than the stored ones on disk",
                                        "mech": MECH, "detail": {"member": name_[:60], "stored_len": len(want_), "on_disk_len": len(on_disk), "fault_fired": fired}})
    if not far and safe and not res["viol"] and case["i"] % 3 == 1:
        # plain extraction to disk, the way a caller who passes nothing special does it: the file appears with the stored bytes and
        # the permission bits recorded in its header (as any tar reader of this Python version would create it)
        import os as _os
        import warnings as _w

        name_, want_ = rng.choice(safe)
        if [n2 for n2, _x in safe].count(name_) == 1 and not any(n3 != name_ and (n3.startswith(name_ + "/") or name_.startswith(n3 + "/")) for n3, _k, _s, _m in got):
            mode_ = next(mm.get("mode", 0o644) for mm in members if mm["name"] == name_ and mm["kind"] in ("file", "std"))
            dest = ctx.tmpdir()
            old_umask = _os.umask(0o022)
            try:
                with _w.catch_warnings():
                    _w.simplefilter("ignore")
                    t3 = call(lambda: vmtar.open(fileobj=io.BytesIO(raw)))
                    ex = call(lambda: t3.value.extract(name_, path=dest)) if t3.ok else t3
            finally:
                _os.umask(old_umask)
            p_out = _os.path.join(dest, name_)
            cnt["plain_extractions_to_disk"] = cnt.get("plain_extractions_to_disk", 0) + 1
            if not ex.ok:
                res["viol"].append({"what": f"extract() of a regular member failed: {ex.brief()}", "mech": MECH, "detail": {"member": name_[:60]}})
            elif not _os.path.isfile(p_out) or open(p_out, "rb").read() != want_:
                res["viol"].append({"what": "extract() left other bytes than the stored ones on disk", "mech": MECH, "detail": {"member": name_[:60]}})
            elif (_os.stat(p_out).st_mode & 0o777) != mode_:  # (tarfile applies the recorded mode with chmod, the umask does not enter)
                res["viol"].append({"what": "extract() created the file with other permission bits than its header records", "mech": MECH,
                                    "detail": {"member": name_[:60], "header_mode": oct(mode_), "on_disk": oct(_os.stat(p_out).st_mode & 0o777)}})
    if far and hasattr(fobj, "mutations") and fobj.mutations:
        res["viol"].append({"what": "handle mutated", "mech": "c09.handle", "detail": {}})
    kinds = [m["kind"] for m in members]
    cnt["gzip_cases"] = int(gz)
    cnt["first_name_begins_like_a_compressed_stream"] = int(bool(members and members[0].get("magic_like_name")))
    cnt["longname_members"] = sum(1 for m in members if m.get("longname"))
    cnt["members_with_data_before_their_header"] = sum(1 for m in members if m.get("alias_of") is not None)
    cnt["members_sized_by_pax_record_only"] = sum(1 for m in members if m.get("hdr_size_zero"))
    cnt["members_with_pax_records"] = sum(1 for m in members if m.get("pax"))
    cnt["members_with_pax_size_record"] = sum(1 for m in members if any(k_ == "size" for k_, _ in m.get("pax") or []))
    cnt["inline_std_members"] = kinds.count("std")
    cnt["far_offset_members"] = sum(1 for o_ in offs.values() if o_ >= (1 << 31))
    cnt["shared_data_members"] = sum(1 for m in members if m.get("share") is not None)
    cnt["old_style_or_contiguous_type_members"] = sum(1 for m in members if m.get("typeflag", b"0") != b"0")
    file_idx = [i for i, m in enumerate(members) if m["kind"] == "file"]
    order = [offs[i] for i in file_idx]
    res["nontrivial"] = (len(order) >= 2 and order != sorted(order)) or ("std" in kinds and "file" in kinds)
    res["sets"]["alignments"] = [align]
    res["sets"]["member_kind_sets"] = ["".join(sorted({kd[0] for kd in kinds}))]
    res["sig"] = (k, case["i"], tuple(kinds), tuple(order))
    res["sample"] = {"members": [(m["name"][:30], m["kind"], len(m.get("data", b""))) for m in members[:6]], "gzip": gz, "align": align,
                     "data_offsets": order[:6]}
    return res
