"""C03 - VHDX: every byte range reads as the guest-visible content (fixed / dynamic)."""
from __future__ import annotations

import gzip
import os
import struct

from vf.core import SECTOR, Model, as_handle, rng_for
from vf.diskcheck import closed_handle_reads, compare_reads, continuation_reads, fault_retry_reads, crossing_count, gen_requests, mismatch_detail
from vf.monitors import call
from vf.writers import vhdx as w

ID = "C03"
LEVEL = "exploration"
CONTRACTS = True  # icontract postconditions on AlignedStream.read/peek/seek fire during this workload too
STEP_BUDGET = 3_000_000  # line events per case; a case that exceeds it is reported as non-termination
HANDLE_CLOSE_CHECK = True
ANCHOR_FILES = ["dissect/hypervisor/disk/vhdx.py"]
RULE = (
    "Non-differencing VHDX files written by an independent writer from a content model: block sizes 1..32 MiB "
    "(..256 MiB thorough), 512- and 4096-byte logical sectors, payload states 0/1/2/3/6 (stale file offsets left "
    "in non-present entries), blocks at MiB-aligned offsets in shuffled/reversed/run-wise order and at file offsets beyond 4 GiB / 1 TiB / 2^50, disks with more "
    "blocks than one chunk ratio so sector-bitmap BAT slots are interleaved (present blocks placed around every "
    "chunk boundary), virtual sizes that are not a block multiple, both header sequence orders, permuted metadata "
    "items and region entries; byte requests from boundary sets (mid-block starts spanning 1..n blocks) and "
    "read_sectors at arbitrary sector alignment; plus fixed.vhdx/dynamic.vhdx against a naive reference reader. "
    "Non-trivial: >=2 present blocks with non-sequential placement, or blocks beyond the first chunk; "
    "distinct = distinct (block size, sector size, BAT) signatures."
    " Every stream additionally goes through: continuation sequences (read, visit elsewhere or have another user move the shared handles, resume at the earlier end / buffer end), reads under an injected transient backend I/O error followed by a retry on the same object (the failed call may raise; returned bytes must be right), and long reads (whole disk up to 24 MiB, else 6-24 MiB windows)."
)
ASSUMPTIONS = [
    "the harness's VHDX writer/reference reader are a faithful reading of MS-VHDX",
    "held means: held on the executions listed, not verified for all inputs",
]
MINIMA = {
    "quick": {"reads_compared": 1500, "midblock_cross_nonadjacent": 100, "beyond_first_chunk_reads": 50, "blocks_beyond_1TiB_file_offset": 20},
    "thorough": {"reads_compared": 150000},
}
MECH = "vhdx.read"
DATA = os.path.join(os.environ.get("VF_REPO", "/repo"), "tests", "data")
MB = 1 << 20


def plan(tier: str, seed: int) -> list[dict]:
    rng = rng_for(seed, ID, "plan")
    cases = []
    blocks = [1, 1, 2, 4, 8, 32] if tier == "quick" else [1, 2, 4, 8, 16, 32, 64, 128, 256]
    for i in range(140 if tier == "quick" else 6000):
        bmb = rng.choice(blocks)
        cases.append({"k": "rand", "i": i, "bmb": bmb, "ss": rng.choice([512, 4096]),
                      "n": rng.randrange(1, 12 if bmb <= 4 else 5),
                      "placement": rng.choice(["seq", "rev", "shuffle", "shuffle", "runs"]), "weight": 2})
    if tier == "quick":
        # every power-of-two block size of the format at least twice, also in the quick tier
        for j, bmb in enumerate([16, 64, 128, 256, 16, 64, 128, 256]):
            cases.append({"k": "rand", "i": 1000 + j, "bmb": bmb, "ss": [512, 4096][j // 4], "n": rng.randrange(2, 5),
                          "placement": rng.choice(["rev", "shuffle"]), "weight": 3})
    # interleaved sector-bitmap slots: more blocks than the chunk ratio
    inter = [(1, 512), (32, 512), (8, 512), (32, 4096)] if tier == "quick" else [(1, 512), (2, 512), (8, 512), (32, 512), (256, 512), (8, 4096), (32, 4096), (256, 4096), (1, 4096)]
    for j, (bmb, ss) in enumerate(inter):
        for r in range(4 if tier == "quick" else 30):
            cases.append({"k": "chunks", "i": j * 100 + r, "bmb": bmb, "ss": ss, "weight": 6})
    # non-differencing disks need block count + interleaved bitmap slots BAT entries, not whole chunks: disks of ~128 GiB whose
    # exact table just fits a whole number of MiB while the whole-chunk count would not
    for j, (bmb, ss, n_) in enumerate([(2, 512, 131000), (1, 4096, 131069), (2, 512, 130945), (1, 4096, 98305)][: 2 if tier == "quick" else 4]):
        cases.append({"k": "tightbat", "i": 3000 + j, "bmb": bmb, "ss": ss, "n": n_, "weight": 10})
    for i in range(8 if tier == "quick" else 200):
        cases.append({"k": "twin", "i": i, "weight": 4})
    for f in ("dynamic.vhdx.gz", "fixed.vhdx.gz"):
        cases.append({"k": "fixture", "name": f, "weight": 20})
    return cases


class RefVHDX:
    """Naive reference reader (non-differencing) over an in-memory VHDX file."""

    def __init__(self, raw: bytes):
        self.raw = raw
        rt = raw[3 * 65536 : 4 * 65536]
        n = struct.unpack_from("<I", rt, 8)[0]
        reg = {}
        for i in range(n):
            e = rt[16 + 32 * i : 48 + 32 * i]
            reg[e[:16]] = struct.unpack_from("<QI", e, 16)
        moff = reg[w.META_GUID][0]
        self.bat_off = reg[w.BAT_GUID][0]
        cnt = struct.unpack_from("<H", raw, moff + 10)[0]
        items = {}
        for i in range(cnt):
            e = raw[moff + 32 + 32 * i : moff + 64 + 32 * i]
            o, ln = struct.unpack_from("<II", e, 16)
            items[e[:16]] = raw[moff + o : moff + o + ln]
        self.block_size = struct.unpack_from("<I", items[w.FILE_PARAMETERS])[0]
        self.size = struct.unpack("<Q", items[w.VIRTUAL_DISK_SIZE])[0]
        self.ss = struct.unpack("<I", items[w.LOGICAL_SECTOR_SIZE])[0]
        self.ratio = (2**23 * self.ss) // self.block_size

    def expected(self, off: int, n: int) -> bytes:
        if off >= self.size or n <= 0:
            return b""
        n = min(n, self.size - off)
        out = []
        pos = off
        while pos < off + n:
            b, o = divmod(pos, self.block_size)
            take = min(self.block_size - o, off + n - pos)
            e = struct.unpack_from("<Q", self.raw, self.bat_off + 8 * (b + b // self.ratio))[0]
            if e & 7 == 6:
                start = (e >> 20) * MB + o
                out.append(self.raw[start : start + take].ljust(take, b"\0"))
            else:
                out.append(b"\0" * take)
            pos += take
        return b"".join(out)


def run(case: dict, ctx) -> dict:
    from dissect.hypervisor.disk.vhdx import VHDX

    res = {"cnt": {}, "viol": [], "sets": {}}
    rng = rng_for(ctx.seed, ID, case["k"], case.get("i"), case.get("name"))
    k = case["k"]
    if rng.random() < 0.12:
        # in the same process, just before: an image the reader refuses (a required region / metadata item it does not know, a
        # damaged signature). Whatever it learned from that file is of no concern to the next one.
        how = rng.choice(["region", "item", "signature"])
        g_ = bytes(rng.randrange(256) for _ in range(16))
        bad, _, _ = w.build(rng, block_size=1 << 20, sector_size=512, nblocks=2, states=[6, 0], tag=1, checksums=False,
                            extra_regions=[(g_, 1)] if how == "region" else (), extra_items=[(g_, b"opaque", 7)] if how == "item" else ())
        braw = bytearray(bad.to_bytes())
        if how == "signature":
            braw[0] ^= 0x20
        ob = call(lambda: VHDX(as_handle(bytes(braw))).read(512))
        res["cnt"]["refused_images_opened_first"] = int(not ob.ok)
    if k == "fixture":
        raw = gzip.open(os.path.join(DATA, case["name"])).read()
        model = RefVHDX(raw)
        o = call(VHDX, as_handle(raw))
        if not o.ok:
            res["viol"].append({"what": f"open failed on fixture: {o.brief()}", "mech": MECH, "detail": {"tb": o.tb}})
            return res
        reqs, _ = gen_requests(rng, model.size, [model.block_size, 8192], n_random=50, max_len=3 * MB)
        compare_reads(o.value, model, reqs, res, MECH, byte_cap=120 << 20)
        res["cnt"]["fixture_cases"] = 1
        res["nontrivial"] = True
        res["sig"] = ("fixture", case["name"])
        res["sample"] = {"fixture": case["name"], "size": model.size, "block_size": model.block_size, "n_requests": len(reqs)}
        return res

    if k == "twin":
        # images sharing one virtual disk id (the same disk at different times) opened one after the other
        did = bytes(rng.randrange(256) for _ in range(16))
        opened = []
        for t in range(3):
            n_ = rng.randrange(2, 7)
            sf, layer, meta = w.build(rng, block_size=MB, sector_size=512, nblocks=n_, states=[rng.choice([0, 2, 6, 6]) for _ in range(n_)],
                                      placement="shuffle", tag=rng.getrandbits(48), disk_id=did, checksums=False)
            o = call(VHDX, as_handle(sf))
            if not o.ok:
                res["viol"].append({"what": f"open failed on conformant image: {o.brief()}", "mech": MECH, "detail": {"tb": o.tb}})
                return res
            opened.append((o.value, Model(meta["size"], [layer])))
            for v_, m_ in opened:
                reqs, _ = gen_requests(rng, m_.size, [MB], n_random=8, pair_cap=20, max_len=MB + 5000)
                compare_reads(v_, m_, reqs, res, MECH, byte_cap=12 << 20)
        res["cnt"]["same_id_twin_images"] = len(opened)
        res["nontrivial"] = True
        res["sig"] = ("twin", case["i"])
        res["sample"] = {"twin_images_sharing_one_disk_id": len(opened)}
        return res
    bs = case["bmb"] * MB
    ss = case["ss"]
    spb = bs // ss
    ratio = (2**23 * ss) // bs
    extra = []
    if k == "tightbat":
        n = case["n"]
        states = [0] * n
        hot_tb = {0, 1, n - 1, n - 2, ratio - 1, ratio, n // 2} | {rng.randrange(n) for _ in range(6)}
        for b_ in hot_tb:
            if 0 <= b_ < n:
                states[b_] = rng.choice([6, 6, 2])
        tail = rng.choice([0, rng.randrange(0, spb)])
        placement = "shuffle"
        extra = [b_ * bs for b_ in sorted(hot_tb) if 0 <= b_ < n]
    elif k == "rand":
        n = case["n"]
        states = None
        tail = rng.choice([0, 0, rng.randrange(0, spb)])
        placement = case["placement"]
    else:
        nchunks = rng.choice([1, 2, 2, 3])
        n = ratio * nchunks + rng.randrange(1, 6)
        states = [0] * n
        interesting = set()
        for c in range(1, nchunks + 1):
            for d in (-2, -1, 0, 1, 2):
                if 0 <= c * ratio + d < n:
                    interesting.add(c * ratio + d)
        interesting |= {0, n - 1, rng.randrange(n)}
        for b in interesting:
            states[b] = rng.choice([6, 6, 6, 2])
        tail = rng.choice([0, rng.randrange(0, spb)])
        placement = rng.choice(["shuffle", "rev", "runs"])
        extra = [b * bs for b in sorted(interesting)] + [(b + 1) * bs for b in sorted(interesting)]
    sf, layer, meta = w.build(
        rng, block_size=bs, sector_size=ss, nblocks=n, tail_cut_sectors=tail, states=states, placement=placement,
        tag=rng.getrandbits(48), seqs=rng.choice([(5, 9), (9, 5), (1, 2), (2**40, 3)]), stale=rng.choice(["valid", "valid", "zero"]),
        meta_item_order=rng.choice([None, "shuffle", "rev"]), item_gap=rng.choice([0, 0, 8, 4096]),
        leave_alloc=rng.random() < 0.4, items_at_region_end=rng.random() < 0.25, regions_last=rng.random() < 0.2,
        locator=w.parent_locator([("parent_linkage", "{83ed0ec1-24c8-49a6-a959-5e4bd1288015}"), ("relative_path", ".\\former parent.vhdx"),
                                  ("absolute_win32_path", "C:\\vm\\former parent.vhdx")], rng=rng) if rng.random() < 0.15 else None,
        # regions and metadata items of unknown type that are not marked required: a reader skips them
        extra_regions=[(bytes(rng.randrange(256) for _ in range(16)), 0) for _ in range(rng.choice([0, 0, 0, 1, 2]))],
        extra_items=[(bytes(rng.randrange(256) for _ in range(16)), bytes(rng.randrange(256) for _ in range(rng.randrange(1, 200))), rng.choice([0, 1, 2, 3]))
                     for _ in range(rng.choice([0, 0, 0, 1, 3]))],
        meta_table_order=rng.choice([None, "shuffle", "rev"]), checksums=(bs <= 8 * MB), far_mb=rng.choice([0, 0, 0, 1 << 12, (1 << 20) + 3, 3 << 20, 1 << 30]),
    )
    model = Model(meta["size"], [layer])
    if sf.end <= (64 << 20) and case["i"] % 4 == 0:
        from vf.diskcheck import triangulate

        triangulate(rng, RefVHDX(sf.to_bytes()), model, "vhdx")
        res["cnt"]["writer_triangulations"] = 1
    fh = as_handle(sf)
    o = call(VHDX, fh)
    if not o.ok:
        res["viol"].append({"what": f"open failed on conformant image: {o.brief()}", "mech": MECH, "detail": {"tb": o.tb}})
        return res
    v = o.value
    for attr, want in (("size", meta["size"]), ("block_size", bs), ("sector_size", ss)):
        if getattr(v, attr) != want:
            res["viol"].append({"what": f"{attr} mismatch", "mech": MECH, "detail": {"got": getattr(v, attr), "exp": want}})
    quick = ctx.tier == "quick"
    reqs, _ = gen_requests(rng, meta["size"], [bs], n_random=25 if quick else 80, max_len=3 * MB + 12345,
                           pair_cap=90 if quick else 300, extra=extra)
    if k == "chunks":
        # requests around every present block (mid-block start, crossing into neighbours)
        for e in extra:
            for _ in range(2):
                a = max(0, e - rng.randrange(1, 70000))
                reqs.append((a, rng.randrange(1, 140000)))
    fault_retry_reads(v, model, reqs, rng, res, MECH, n=3)  # cold caches
    continuation_reads(v, model, reqs, rng, res, MECH)
    fault_retry_reads(v, model, reqs, rng, res, MECH)
    compare_reads(v, model, reqs, res, MECH, byte_cap=(40 if quick else 120) << 20)
    # sector interface at arbitrary sector alignment
    total = meta["size"] // ss
    for _ in range(10):
        if total <= 0 or res["viol"]:
            break
        if extra and rng.random() < 0.7:
            s0 = min(max(0, rng.choice(extra) // ss - rng.randrange(0, 40)), total - 1)
        else:
            s0 = rng.randrange(total)
        c = rng.randrange(1, min(total - s0, 300) + 1)
        o2 = call(v.read_sectors, s0, c)
        exp = model.expected(s0 * ss, c * ss)
        res["cnt"]["sector_reads_compared"] = res["cnt"].get("sector_reads_compared", 0) + 1
        if not o2.ok:
            res["viol"].append({"what": f"read_sectors raised: {o2.brief()}", "mech": MECH, "detail": {"sector": s0, "count": c, "tb": o2.tb}})
        elif o2.value != exp:
            res["viol"].append({"what": "read_sectors content mismatch", "mech": MECH, "detail": mismatch_detail(s0 * ss, c * ss, o2.value, exp)})
    if fh.mutations:
        res["viol"].append({"what": "handle mutated", "mech": "c09.handle", "detail": {"m": fh.mutations[:3]}})
    if case.get("i", 0) % 4 == 0 and sf.end <= (256 << 20):
        closed_handle_reads(v, model, [fh], reqs, rng, res, MECH)
    pos = {int(a): b for a, b in meta["pos_mb"].items()}
    st = meta["states"]
    nonadj = 0
    beyond = 0
    for off, ln in reqs:
        if ln <= 0:
            continue
        b0, b1 = off // bs, (off + ln - 1) // bs
        if b1 >= ratio:
            beyond += 1
        if off % bs and b1 > b0 and b0 in pos and (b0 + 1) in pos and pos[b0 + 1] != pos[b0] + bs // MB:
            nonadj += 1
    res["cnt"]["midblock_cross_nonadjacent"] = nonadj
    res["cnt"]["beyond_first_chunk_reads"] = beyond
    res["cnt"]["multi_block_requests"] = crossing_count(reqs, bs)
    res["cnt"][f"sector_{ss}_cases"] = 1
    res["cnt"]["chunk_interleave_cases"] = int(k == "chunks")
    res["cnt"]["blocks_beyond_1TiB_file_offset"] = sum(1 for m_ in pos.values() if m_ >= (1 << 20))
    present = [i for i, s in enumerate(st) if s == 6]
    order = [pos[i] for i in present]
    res["nontrivial"] = (len(present) >= 2 and order != sorted(order)) or n > ratio
    res["sig"] = (bs, ss, n, tuple(sorted(pos.items())), tuple(st) if n < 64 else sum(st), meta["size"])
    res["sets"]["block_mb"] = [case["bmb"]]
    res["sets"]["states_seen"] = sorted(set(st))
    res["sample"] = {"block_mb": case["bmb"], "sector_size": ss, "nblocks": n, "chunk_ratio": ratio, "size": meta["size"],
                     "present_blocks_file_mb": dict(list(sorted(pos.items()))[:8]), "seqs": meta["seqs"], "requests": reqs[:3]}
    return res
