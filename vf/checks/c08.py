"""C08 - A disk stream behaves as an immutable byte array under any access history."""
from __future__ import annotations

import io

from vf import chains, contracts, streams
from vf.core import rng_for
from vf.diskcheck import mismatch_detail
from vf.monitors import call

ID = "C08"
LEVEL = "exploration"
STEP_BUDGET = 60_000_000
HANDLE_CLOSE_CHECK = True
OPEN_INTERPOSE = True  # files the library opens by path (parents, extents, bundle images) are wrapped in observing proxies
ANCHOR_FILES = [f"dissect/hypervisor/disk/{m}.py" for m in ("qcow2", "vmdk", "vhdx", "vhd", "vdi", "hdd")]
RULE = (
    "Model-based random histories (seek SET/CUR/END incl. beyond the end and negative, read(n) for n in {0, 1, small, "
    "unaligned, >= buffer, past the end, -1}, readinto, peek, readoffset, readall, tell, and read_sectors where "
    "the class has it) on the same object, for every stream class (QCow2 incl. extended L2, snapshot view and raw "
    "backing; VMDK hosted/stream-optimized/COWD/SE-sparse/flat/multi-extent; VHDX 512/4096; VHD dynamic/fixed; VDI; HDS "
    "v1/v2; Parallels StorageStream; and the layered kinds VHDX differencing, VMDK delta, Parallels snapshot chain, QCow2-on-QCow2, "
    "VDI over parent), each history in its own interpreter per DISSECT_STREAM_BUFFER_SIZE in {512, 4096, "
    "8192, 65536, 1 MiB, 4 MiB} (only multiples of the disk's sector size), on images sized to overflow every cache "
    "(>=130 L2/grain tables, >=4200 BAT entries) with revisits. Oracle: shadow (content model, position) after every "
    "operation + icontract postconditions on AlignedStream.read/peek/seek (also fire on internally read streams). "
    "Non-trivial: a history with >=20 operations of >=5 kinds; distinct = (class, buffer size, history seed)."
)
ASSUMPTIONS = [
    "writers/content models as in C01..C06",
    "negative SEEK_SET raising ValueError is AlignedStream's documented behaviour and is accepted",
    "read(None) is not exercised: dissect.util's AlignedStream (outside this repository) raises TypeError for it",
    "held means: held on the executions listed, not verified for all histories",
]
MINIMA = {"quick": {"ops": 8000, "sector_ops": 300, "cache_overflow_histories": 20, "contract_evaluations": 8000},
          "thorough": {"ops": 800000}}
BUFFERS = [512, 4096, 8192, 65536, 1 << 20, 4 << 20]
MECH = "stream.history"
LAYERED = ["vhdx-diff", "vmdk-delta", "hdd-snapshots", "qcow2-chain", "vdi-parent"]


def plan(tier: str, seed: int) -> list[dict]:
    cases = []
    reps = 4 if tier == "quick" else 60
    for buf in BUFFERS:
        for kind in streams.KINDS + LAYERED:
            if kind == "vhdx-4k" and buf % 4096:
                continue
            for r in range(reps):
                overflow = kind in ("qcow2", "vmdk-hosted", "vmdk-cowd", "vmdk-sesparse", "vhdx", "vhd-dyn") and (r % 2 == 0)
                cases.append({"kind": kind, "buf": buf, "r": r, "overflow": overflow, "env": {"DISSECT_STREAM_BUFFER_SIZE": buf},
                              "weight": 3 if overflow else 1})
    return cases


def worker_init(ctx) -> None:
    ctx.contracts = contracts.install()


def worker_fini(ctx) -> dict:
    return {"contracts_available": contracts.STATE["available"], "contract_evals": contracts.STATE["evals"],
            "by_class": contracts.STATE["by_class"]}


def run(case: dict, ctx) -> dict:
    from dissect.util import stream as ustream

    res = {"cnt": {}, "viol": [], "sets": {}}
    cnt = res["cnt"]
    buf = case["buf"]
    if ustream.STREAM_BUFFER_SIZE != buf:
        raise RuntimeError(f"buffer size {ustream.STREAM_BUFFER_SIZE} != requested {buf} (environment not applied)")
    rng = rng_for(ctx.seed, ID, case["kind"], buf, case["r"])
    ev0 = contracts.STATE["evals"]
    if case["kind"] in LAYERED:
        o = call(chains.open_chain, case["kind"], rng, ctx)
    else:
        o = call(streams.open_kind, case["kind"], rng, ctx, case["overflow"])
    if not o.ok:
        res["viol"].append({"what": f"open failed on conformant image: {o.brief()}", "mech": MECH, "detail": {"tb": o.tb, "kind": case["kind"]}})
        return res
    op = o.value
    s, model = op.stream, op.model
    size = model.size
    if s.size != size:
        res["viol"].append({"what": "size mismatch", "mech": MECH, "detail": {"got": s.size, "exp": size}})
        return res
    pos = 0
    nops = (70 if ctx.tier == "quick" else 250) if buf <= 65536 else (30 if ctx.tier == "quick" else 90)
    hist = []
    kinds_used = set()
    budget = 40 << 20
    hot = [rng.randrange(0, size + 1) for _ in range(6)]  # revisited positions (cache thrash + revisit)
    ends: list[int] = []  # positions where earlier reads ended: later reads resume exactly there

    def some_offset():
        r = rng.random()
        if ends and r < 0.15:
            return rng.choice(ends)
        if r < 0.35:
            return rng.choice(hot) + rng.randrange(-buf, buf + 1) if rng.random() < 0.5 else rng.choice(hot)
        if r < 0.5:
            return (size // buf) * buf + rng.randrange(-3, 4)  # around the last buffer boundary
        if r < 0.6:
            return size + rng.randrange(-5, 6)
        return rng.randrange(0, size + 1)

    def some_len():
        r = rng.random()
        if r < 0.1:
            return 0
        if r < 0.25:
            return 1
        if r < 0.5:
            return rng.randrange(2, 700)
        if r < 0.7:
            return rng.randrange(buf - 3, buf + 4) if buf <= 65536 else rng.randrange(1, 70000)
        if r < 0.85:
            return rng.randrange(1, min(3 * buf, 1 << 20) + 2)
        return rng.randrange(1, 1 << 16) + max(0, size - pos) if size - pos < (1 << 20) else rng.randrange(1, 1 << 16)

    def fail(what, detail):
        res["viol"].append({"what": what, "mech": MECH, "detail": {**detail, "history_tail": hist[-6:], "class": type(s).__name__, "buffer": buf}})

    for i in range(nops):
        if res["viol"] or budget <= 0:
            break
        r = rng.random()
        if r < 0.22:
            whence = rng.choice([0, 0, 1, 2])
            if whence == 0:
                tgt = max(some_offset(), -3)
                exp_pos = tgt
            elif whence == 1:
                tgt = some_offset() - pos
                exp_pos = max(0, pos + tgt)
            else:
                tgt = some_offset() - size
                exp_pos = max(0, size + tgt)
            hist.append(("seek", tgt, whence))
            oc = call(s.seek, tgt, whence)
            kinds_used.add(f"seek{whence}")
            if whence == 0 and tgt < 0:
                if oc.ok:
                    fail("negative SEEK_SET did not raise", {"target": tgt})
                continue
            if not oc.ok:
                fail(f"seek raised: {oc.brief()}", {"target": tgt, "whence": whence, "tb": oc.tb})
                continue
            pos = exp_pos
            if oc.value != pos or s.tell() != pos:
                fail("position after seek", {"returned": oc.value, "tell": s.tell(), "expected": pos})
        elif r < 0.62:
            n = some_len()
            variant = rng.choice(["read", "read", "read", "readinto", "peek"])
            if rng.random() < 0.06 and size - pos <= (6 << 20):
                n = -1
                variant = rng.choice(["read", "readall"])
            exp = model.expected(pos, size - pos if n in (-1, None) else n)
            hist.append((variant, n, pos))
            kinds_used.add(variant if n not in (-1, None) else "read-to-end")
            if variant == "read":
                oc = call(s.read, n)
                got = oc.value
            elif variant == "readall":
                oc = call(s.readall)
                got = oc.value
            elif variant == "readinto":
                ba = bytearray(n)
                oc = call(s.readinto, ba)
                got = bytes(ba[: oc.value]) if oc.ok else None
                if oc.ok and oc.value != len(exp):
                    fail("readinto count", {"got": oc.value, "exp": len(exp), "pos": pos, "n": n})
                    continue
            else:
                oc = call(s.peek, n)
                got = oc.value
            if not oc.ok:
                fail(f"{variant} raised: {oc.brief()}", {"pos": pos, "n": n, "tb": oc.tb})
                continue
            budget -= len(exp)
            cnt["bytes_compared"] = cnt.get("bytes_compared", 0) + len(exp)
            if got != exp:
                fail(f"{variant} content/length mismatch", mismatch_detail(pos, -1 if n is None else n, got, exp))
                continue
            if variant != "peek":
                pos += len(exp)
                if len(ends) < 12 and pos < size:
                    ends.append(pos)
            if s.tell() != pos:
                fail(f"position after {variant}", {"tell": s.tell(), "expected": pos})
        elif r < 0.74:
            off = max(0, some_offset())
            n = some_len()
            exp = model.expected(off, n)
            hist.append(("readoffset", off, n))
            kinds_used.add("readoffset")
            oc = call(s.readoffset, off, n)
            if not oc.ok:
                fail(f"readoffset raised: {oc.brief()}", {"off": off, "n": n, "tb": oc.tb})
                continue
            budget -= len(exp)
            if oc.value != exp:
                fail("readoffset content/length mismatch", mismatch_detail(off, n, oc.value, exp))
                continue
            pos = off + len(exp)
            if s.tell() != pos:
                fail("position after readoffset", {"tell": s.tell(), "expected": pos})
        elif r < 0.8:
            hist.append(("tell",))
            kinds_used.add("tell")
            if s.tell() != pos:
                fail("tell", {"tell": s.tell(), "expected": pos})
        elif op.read_sectors is not None and op.sector_limit:
            ss = op.sector_size
            s0 = min(max(0, some_offset() // ss), op.sector_limit - 1)
            c = min(rng.choice([1, 1, 2, rng.randrange(1, 300)]), op.sector_limit - s0)
            exp = model.expected(s0 * ss, c * ss)
            hist.append(("read_sectors", s0, c))
            kinds_used.add("read_sectors")
            oc = call(op.read_sectors, s0, c)
            cnt["sector_ops"] = cnt.get("sector_ops", 0) + 1
            if not oc.ok:
                fail(f"read_sectors raised: {oc.brief()}", {"sector": s0, "count": c, "tb": oc.tb})
                continue
            budget -= len(exp)
            if oc.value != exp:
                fail("read_sectors content/length mismatch (byte and sector interface disagree with the model)",
                     mismatch_detail(s0 * ss, c * ss, oc.value, exp))
                continue
            if s.tell() != pos:
                fail("read_sectors moved the byte position", {"tell": s.tell(), "expected": pos})
        cnt["ops"] = cnt.get("ops", 0) + 1
    for anc, p_ in getattr(op, "lower", []):
        cnt["ancestor_positions_checked"] = cnt.get("ancestor_positions_checked", 0) + 1
        if anc.tell() != p_:
            res["viol"].append({"what": "reading a child moved the position of an ancestor stream the caller holds", "mech": MECH,
                                "detail": {"ancestor_position_before": p_, "after": anc.tell(), "kind": case["kind"]}})
            break
    for h in op.handles:
        if getattr(h, "mutations", None):
            res["viol"].append({"what": "handle mutated", "mech": "c09.handle", "detail": {"m": h.mutations[:3]}})
    cnt["histories"] = 1
    cnt["cache_overflow_histories"] = int(case["overflow"])
    cnt["contract_evaluations"] = contracts.STATE["evals"] - ev0
    cnt["backend_reads_past_end_of_file"] = sum(getattr(h, "past_end_reads", 0) for h in op.handles)
    cnt["size_not_buffer_multiple"] = int(size % buf != 0)
    res["sets"]["class_x_buffer"] = [f"{type(s).__name__}/{case['kind']}@{buf}"]
    res["sets"]["op_kinds"] = sorted(kinds_used)
    res["nontrivial"] = cnt.get("ops", 0) >= 20 and len(kinds_used) >= 5
    res["sig"] = (case["kind"], buf, case["r"])
    res["sample"] = {"class": type(s).__name__, "kind": case["kind"], "buffer": buf, "size": size, "info": op.info,
                     "history_head": hist[:8], "ops": cnt.get("ops", 0)}
    return res


def summarize(results, counters, sets):
    return {"contracts": "icontract postconditions on AlignedStream.read/peek/seek; evaluations counted in counters.contract_evaluations"}
