"""C19 - XML descriptors are parsed without entity expansion or external fetches."""
from __future__ import annotations

import io
import os
from pathlib import Path

from vf.core import rng_for
from vf.monitors import call
from vf.writers import hds as whds
from vf.writers import vmconfig as w

ID = "C19"
LEVEL = "fault_enumeration"
STEP_BUDGET = 3_000_000
MEMORY = True
ANCHOR_FILES = ["dissect/hypervisor/descriptor/ovf.py", "dissect/hypervisor/descriptor/vbox.py", "dissect/hypervisor/descriptor/pvs.py", "dissect/hypervisor/disk/hdd.py"]
RULE = (
    "Fault enumeration at all four XML entry points (OVF, VBox, PVS, Parallels DiskDescriptor via HDD(path)): every "
    "combination of DOCTYPE class (internal entity used / unused, 10^9-fold nested-entity bomb, external general entity "
    "file: to a canary file holding a secret and http:, external parameter entity, unparsed entity + notation, PUBLIC "
    "external entity; external DTD subsets file:/http: without entity declarations; bare DOCTYPE; none) x prolog shape "
    "(nothing, comment, processing instruction, blank lines, several comments+PI before the DOCTYPE) x entity "
    "referenced in element text or not x (for DiskDescriptor.xml) UTF-8 / UTF-16-LE / UTF-16-BE with BOM. Oracle: (a) a "
    "document that declares an entity is refused with an exception; (b) the audit monitor sees no open of the canary "
    "path and no socket/urllib/subprocess event during any parse; (c) no returned text contains the secret; (d) the "
    "step clock and traced memory stay within 3e6 line events / 48 MiB; (e) documents without DOCTYPE yield the model's "
    "disk list. DOCTYPEs without entity declarations may parse or be refused but must satisfy (b)-(d). distinct = "
    "(entry point, class, prolog, reference, encoding)."
)
ASSUMPTIONS = [
    "UTF-16 DiskDescriptor.xml files without entities are not judged (the reader reads text with the locale default)",
    "held means: held on the documents enumerated, not verified for all XML",
]
MINIMA = {"quick": {"entity_documents": 600, "entity_documents_refused": 600, "benign_documents": 100}, "thorough": {"entity_documents": 10000}}
MECH = "xml.entities"
SECRET = "CANARY-SECRET-7f3a9c51"
ENTRY = ["ovf", "vbox", "pvs", "hdd"]


def plan(tier: str, seed: int) -> list[dict]:
    cases = []
    classes = list(w.doctypes("r", "file:///x").keys())
    reps = 3 if tier == "quick" else 30
    for ep in ENTRY:
        for cls in classes:
            for lead in range(len(w.LEADS)):
                for ref in (False, True):
                    encs = ["utf-8"] if ep != "hdd" else ["utf-8", "utf-16-le", "utf-16-be"]
                    for enc in encs:
                        for r in range(reps):
                            cases.append({"ep": ep, "cls": cls, "lead": lead, "ref": ref, "enc": enc, "r": r})
    return cases


def run(case: dict, ctx) -> dict:
    res = {"cnt": {}, "viol": [], "sets": {}}
    cnt = res["cnt"]
    rng = rng_for(ctx.seed, ID, case["ep"], case["cls"], case["lead"], case["ref"], case["enc"], case["r"])
    d = Path(ctx.tmpdir())
    canary = d / "canary.txt"
    canary.write_text(SECRET)
    ep, cls = case["ep"], case["cls"]
    root = {"ovf": "Envelope", "vbox": "VirtualBox", "pvs": "ParallelsVirtualMachine", "hdd": "Parallels_disk_image"}[ep]
    dt = w.doctypes(root, "file://" + str(canary))[cls]
    lead = w.LEADS[case["lead"]]
    ref = w.ENTITY_REF.get(cls) if case["ref"] else None
    declares_entity = cls in w.ENTITY_CLASSES
    benign = cls == "none"
    # a DOCTYPE that declares no entity (and names no external subset) is an ordinary document
    harmless_dtd = cls in ("doctype-only", "doctype-empty-subset", "dtd-elements-only") and not ref
    returned_text = ""
    # blanks (or a byte order mark) in front of the XML declaration, as in carved or hand-edited files: blanks make the
    # document malformed - an entity-declaring one must be refused all the same, whichever way the parse error is handled
    pidx = (case["lead"] * 3 + case["r"] + len(cls) + len(ep)) % 7
    pre = ["", "", "", "\n", "  \r\n\t", " ", "\ufeff"][pidx] if declares_entity or pidx in (0, 1, 2, 6) else ""
    # the descriptor classes take "a file-like object": a text stream, or a binary one (BytesIO, a file opened "rb"), whose
    # bytes may start with a UTF-8 byte order mark
    hkind = ["text", "text", "bytes", "bytes-bom", "file-rb-bom"][(case["lead"] + case["r"] * 3 + len(cls)) % 5] if ep != "hdd" else "text"
    if hkind != "text":
        pre = ""
    res["sets"]["handle_kinds"] = [f"{ep}:{hkind}"]

    def _handle(text_):
        if hkind == "text":
            return io.StringIO(text_)
        raw_ = (b"\xef\xbb\xbf" if hkind.endswith("bom") else b"") + text_.encode("utf-8")
        if hkind.startswith("bytes"):
            return io.BytesIO(raw_)
        p_ = d / "descriptor-on-disk.xml"
        p_.write_bytes(raw_)
        return open(p_, "rb")

    if ep == "ovf":
        from dissect.hypervisor.descriptor.ovf import OVF

        text, want = w.gen_ovf(rng, doctype=dt, lead=lead)
        if ref:
            text = text.replace("<" + ("Info>disks" if "<Info>disks" in text else "x"), "<Info>" + ref + "disks", 1) if "<Info>disks" in text else text.replace(":Info>disks", ":Info>" + ref + "disks", 1)
            # also put the reference where disks() would return it
            text = text.replace('href="', 'href="' + ref, 1) if rng.random() < 0.5 else text
        text = pre + text
        o = call(lambda: sorted(OVF(_handle(text)).disks()))
    elif ep == "vbox":
        from dissect.hypervisor.descriptor.vbox import VBox

        text, must, maybe, never = w.gen_vbox(rng, doctype=dt, lead=lead)
        if ref:
            text = text.replace('location="', 'location="' + ref, 1) if 'location="' in text else text.replace("<Hardware", "<Description>" + ref + "</Description><Hardware", 1)
        text = pre + text
        o = call(lambda: sorted(VBox(_handle(text)).disks()))
        want = None
    elif ep == "pvs":
        from dissect.hypervisor.descriptor.pvs import PVS

        text, want, never = w.gen_pvs(rng, doctype=dt, lead=lead)
        if ref:
            text = text.replace("<SystemName>", "<SystemName>" + ref, 1) if "<SystemName>" in text else text.replace("<VmName>", "<VmName>" + ref, 1)
        text = pre + text
        o = call(lambda: sorted(PVS(_handle(text)).disks()))
    else:
        from dissect.hypervisor.disk.hdd import HDD

        g = whds.DEFAULT_TOP
        fn = "x.hds"
        body = whds.descriptor_xml([{"start": 0, "end": 8, "images": [{"guid": g, "type": "Plain", "file": fn}]}], [(g, whds.NULL_GUID)], doctype="")
        head, _, tail = body.partition("\n")
        text = pre + head + "\n" + lead + dt + "\n" + tail
        if ref:
            text = text.replace("<File>", "<File>" + ref, 1)
        enc = case["enc"]
        hd = d / "e.hdd"
        hd.mkdir()
        clean_first = declares_entity and (case["r"] + case["lead"]) % 2 == 0
        stamp = None
        if clean_first:
            # the bundle is loaded once while its descriptor is still an ordinary one; the file is then replaced in place
            # (same path, same timestamps): what was learned from the earlier document says nothing about this one
            (hd / "DiskDescriptor.xml").write_text(body, encoding="utf-8")
            (hd / fn).write_bytes(b"D" * 4096)
            s0 = os.stat(hd / "DiskDescriptor.xml")
            stamp = (s0.st_atime_ns, s0.st_mtime_ns)
            first = call(lambda: HDD(hd).descriptor.storage_data.storages[0].images[0].file)
            cnt["hdd_clean_descriptor_loaded_first"] = 1
            if not first.ok:
                res["viol"].append({"what": f"a document without DOCTYPE was refused: {first.brief()}", "mech": MECH, "detail": {"entry_point": ep, "tb": first.tb}})
        if enc == "utf-8":
            (hd / "DiskDescriptor.xml").write_bytes(text.encode("utf-8"))
        else:
            t16 = text.replace('encoding="UTF-8"', 'encoding="UTF-16"')
            bom = b"\xff\xfe" if enc == "utf-16-le" else b"\xfe\xff"
            (hd / "DiskDescriptor.xml").write_bytes(bom + t16.encode(enc))
        if stamp is not None:
            os.utime(hd / "DiskDescriptor.xml", ns=stamp)
        (hd / fn).write_bytes(b"D" * 4096)
        # Parallels keeps a backup copy of the descriptor in the bundle; it is harmless and must not stand in for the real one
        (hd / "DiskDescriptor.xml.Backup").write_text(body, encoding="utf-8")
        want = None

        def _hdd():
            h = HDD(hd)
            files = [im.file for s in h.descriptor.storage_data.storages for im in s.images]
            return files

        o = call(_hdd)
    if o.ok:
        returned_text = repr(o.value)
    # (a) refusal
    if declares_entity:
        cnt["entity_documents"] = 1
        if o.ok:
            res["viol"].append({"what": "a document that declares entities was accepted", "mech": MECH,
                                "detail": {"entry_point": ep, "class": cls, "prolog": lead.strip()[:40], "encoding": case["enc"], "referenced": bool(ref),
                                           "returned": returned_text[:200]}})
        else:
            cnt["entity_documents_refused"] = 1
            res["sets"]["refusal_exceptions"] = [f"{ep}:{o.exc_name()}"]
    elif benign and case["enc"] == "utf-8":
        cnt["benign_documents"] = 1
        if not o.ok:
            res["viol"].append({"what": f"a document without DOCTYPE was refused: {o.brief()}", "mech": MECH, "detail": {"entry_point": ep, "tb": o.tb}})
        elif want is not None and o.value != want:
            res["viol"].append({"what": "benign document: disk list differs from the model", "mech": MECH, "detail": {"got": o.value, "exp": want}})
        elif ep == "vbox" and not (set(must) <= set(o.value) <= set(must) | set(maybe)):
            res["viol"].append({"what": "benign document: disk list differs from the model", "mech": MECH,
                                "detail": {"got": o.value, "must": sorted(must)[:6], "may": sorted(maybe)[:6]}})
    elif harmless_dtd and case["enc"] == "utf-8":
        cnt["harmless_doctype_documents"] = 1
        if not o.ok:
            res["viol"].append({"what": f"a document whose DOCTYPE declares no entities was refused: {o.brief()}", "mech": MECH,
                                "detail": {"entry_point": ep, "class": cls, "tb": o.tb}})
        elif want is not None and o.value != want:
            res["viol"].append({"what": "document with a harmless DOCTYPE: disk list differs from the model", "mech": MECH, "detail": {"got": o.value, "exp": want}})
    else:
        cnt["dtd_only_documents"] = 1
        cnt["dtd_only_accepted"] = int(o.ok)
    # (b) no external fetch
    hits = [e for e in ctx.audit.opens if e["path"] == str(canary)]
    if hits:
        res["viol"].append({"what": "the parser opened the external entity's target file", "mech": "xml.external", "detail": {"events": hits[:2], "class": cls, "entry_point": ep}})
    if ctx.audit.network:
        res["viol"].append({"what": "network/process activity while parsing XML", "mech": "xml.external", "detail": {"events": ctx.audit.network[:2], "class": cls}})
    # (c) no leak
    if SECRET in returned_text:
        res["viol"].append({"what": "returned text contains the canary secret", "mech": "xml.external", "detail": {"class": cls, "entry_point": ep}})
    # (d) resources
    peak = ctx.mem.peak()
    if peak > (48 << 20):
        res["viol"].append({"what": "parsing used more than 48 MiB (entity expansion?)", "mech": "xml.bomb", "detail": {"peak": peak, "class": cls, "entry_point": ep}})
    if len(returned_text) > 200_000:
        res["viol"].append({"what": "returned text is huge (entity expansion?)", "mech": "xml.bomb", "detail": {"len": len(returned_text), "class": cls}})
    res["sets"]["classes_x_entry"] = [f"{ep}:{cls}"]
    res["nontrivial"] = True
    res["sig"] = (ep, cls, case["lead"], case["ref"], case["enc"], case["r"])
    res["sample"] = {"entry_point": ep, "class": cls, "prolog": lead.strip()[:30], "referenced": bool(ref), "encoding": case["enc"], "outcome": o.brief()[:80]}
    return res
