"""C06 - Parallels HDD/HDS: every byte range reads as the guest-visible content."""
from __future__ import annotations

import gzip
import os
import struct
from pathlib import Path

from vf.core import SECTOR, BytesModel, ConcatModel, Model, as_handle, rng_for
from vf.diskcheck import closed_handle_reads, two_readers, compare_reads, continuation_reads, fault_retry_reads, crossing_count, gen_requests
from vf.monitors import call
from vf.writers import hds as w

ID = "C06"
LEVEL = "exploration"
CONTRACTS = True  # icontract postconditions on AlignedStream.read/peek/seek fire during this workload too
STEP_BUDGET = 3_000_000  # line events per case; a case that exceeds it is reported as non-termination
HANDLE_CLOSE_CHECK = True
OPEN_INTERPOSE = True  # files the library opens by path (parents, extents, bundle images) are wrapped in observing proxies
ANCHOR_FILES = ["dissect/hypervisor/disk/hdd.py"]
RULE = (
    "HDS images written by an independent writer from a content model: v1 (BAT in sectors, also at sector "
    "positions that are not cluster multiples) and v2 (BAT in clusters), cluster sizes 1..2048 sectors, "
    "shuffled/reversed/run-wise placement and systematic coincidence placement (a cluster that follows k "
    "unallocated clusters stored at file offset k*cluster); plain images; both HDS(fh) and HDD(dir).open() over "
    "a generated DiskDescriptor.xml, also with several storages (expanding with holes, and plain) behind one HDD; plus the repository's three fixtures against a naive reference reader. "
    "Non-trivial: >=2 clusters with a non-sequential placement or a mix of allocated/unallocated clusters. "
    "distinct = distinct (version, cluster size, states, BAT) signatures."
    " Every stream additionally goes through: continuation sequences (read, visit elsewhere or have another user move the shared handles, resume at the earlier end / buffer end), reads under an injected transient backend I/O error followed by a retry on the same object (the failed call may raise; returned bytes must be right), and long reads (whole disk up to 24 MiB, else 6-24 MiB windows)."
)
ASSUMPTIONS = [
    "the harness's HDS writer/reference reader are a faithful reading of the ploop/Parallels layout",
    "held means: held on the executions listed, not verified for all inputs",
]
MINIMA = {"quick": {"reads_compared": 3000, "coincidence_cases": 20, "multi_storage_cases": 8, "relocated_absolute_path_cases": 8, "snapshot_reopen_cases": 8}, "thorough": {"reads_compared": 300000}}
MECH = "hds.read"
DATA = os.path.join(os.environ.get("VF_REPO", "/repo"), "tests", "data")


def plan(tier: str, seed: int) -> list[dict]:
    rng = rng_for(seed, ID, "plan")
    cases = []
    n = 170 if tier == "quick" else 16000
    ms_choices = [1, 2, 3, 8, 16, 64, 256, 2048] if tier == "quick" else [1, 2, 3, 5, 8, 16, 31, 64, 128, 256, 1024, 2048]
    for i in range(n):
        ms = rng.choice(ms_choices)
        ncl = rng.randrange(1, 40 if ms <= 64 else (10 if ms <= 256 else 5))
        cases.append({
            "k": rng.choice(["hds", "hds", "hds", "hdd"]), "i": i, "ver": rng.choice([1, 2]), "ms": ms, "n": ncl,
            "placement": rng.choice(["seq", "rev", "shuffle", "runs", "coincidence", "coincidence"]),
            "unaligned": rng.random() < 0.4, "weight": 1 + (ms * ncl >> 11),
        })
    # clusters larger than 1 MiB, and version-2 images of 2 TiB and more (a 64-bit sector count), in both tiers
    for j in range(4 if tier == "quick" else 40):
        cases.append({"k": "hds", "i": 5000 + j, "ver": 1 + j % 2, "ms": [4096, 8192][j % 2], "n": rng.randrange(3, 6), "placement": "shuffle",
                      "unaligned": False, "weight": 8})
    for j in range(3 if tier == "quick" else 30):
        cases.append({"k": "hds", "i": 6000 + j, "ver": 2, "ms": 65536, "n": 65536 + rng.choice([0, 1, 7, 4000]), "placement": "shuffle",
                      "unaligned": False, "big": True, "weight": 10})
    for i in range(6 if tier == "quick" else 60):
        cases.append({"k": "plain", "i": i})
    for i in range(16 if tier == "quick" else 200):
        cases.append({"k": "multi", "i": i})
    for i in range(16 if tier == "quick" else 200):
        cases.append({"k": "abs", "i": i})
    for i in range(16 if tier == "quick" else 200):
        cases.append({"k": "snap", "i": i})
    fx = ["expanding.hdd", "split.hdd"] + (["plain.hdd"] if tier == "thorough" else [])
    for f in fx:
        cases.append({"k": "fixture", "name": f, "weight": 60})
    return cases


class RefHDS:
    """Naive, lazy reference reader for an HDS file held in memory (one cluster at a time, no coalescing)."""

    def __init__(self, raw: bytes, nsectors: int | None = None):
        self.raw = raw
        sig = raw[:16]
        _typ, _heads, _cyl, self.msec, self.nbat = struct.unpack_from("<IIIII", raw, 16)
        if sig == w.SIG_V1:
            nsec = struct.unpack_from("<I", raw, 36)[0]
            self.mult = SECTOR
        else:
            nsec = struct.unpack_from("<Q", raw, 36)[0]
            self.mult = self.msec * SECTOR
        self.cs = self.msec * SECTOR
        self.size = (nsec if nsectors is None else nsectors) * SECTOR

    def cluster(self, i: int) -> bytes:
        if i >= self.nbat:
            return b"\0" * self.cs
        e = struct.unpack_from("<I", self.raw, 64 + 4 * i)[0]
        if not e:
            return b"\0" * self.cs
        return self.raw[e * self.mult : e * self.mult + self.cs].ljust(self.cs, b"\0")

    def expected(self, off: int, n: int) -> bytes:
        if off >= self.size or n <= 0:
            return b""
        n = min(n, self.size - off)
        c0, c1 = off // self.cs, (off + n - 1) // self.cs
        buf = b"".join(self.cluster(c) for c in range(c0, c1 + 1))
        skip = off - c0 * self.cs
        return buf[skip : skip + n]


class RawRef:
    def __init__(self, raw: bytes, nsectors: int):
        self.raw = raw
        self.size = nsectors * SECTOR

    def expected(self, off: int, n: int) -> bytes:
        if off >= self.size or n <= 0:
            return b""
        n = min(n, self.size - off)
        return self.raw[off : off + n].ljust(n, b"\0")


def run(case: dict, ctx) -> dict:
    from dissect.hypervisor.disk.hdd import HDD, HDS

    res = {"cnt": {}, "viol": [], "sets": {}}
    rng = rng_for(ctx.seed, ID, case["k"], case.get("i"), case.get("name"))
    k = case["k"]
    if k == "fixture":
        d = ctx.tmpdir()
        src = os.path.join(DATA, case["name"])
        dst = os.path.join(d, case["name"])
        os.makedirs(dst)
        import re

        xml = open(os.path.join(src, "DiskDescriptor.xml")).read()
        open(os.path.join(dst, "DiskDescriptor.xml"), "w").write(xml)
        parts = []
        for m in re.finditer(r"<Start>(\d+)</Start>\s*<End>(\d+)</End>.*?<Type>(\w+)</Type>\s*<File>([^<]+)</File>", xml, re.S):
            start, end, typ, fn = int(m.group(1)), int(m.group(2)), m.group(3), m.group(4)
            raw = gzip.open(os.path.join(src, fn + ".gz")).read()
            open(os.path.join(dst, fn), "wb").write(raw)
            ref = RefHDS(raw, end - start) if typ == "Compressed" else RawRef(raw, end - start)
            parts.append((start, end, ref))
        parts.sort(key=lambda p: p[0])
        model = ConcatModel([p[2] for p in parts])
        o = call(lambda: HDD(Path(dst)).open())
        if not o.ok:
            res["viol"].append({"what": f"open failed on fixture: {o.brief()}", "mech": MECH, "detail": {"tb": o.tb}})
            return res
        st = o.value
        if st.size != model.size:
            res["viol"].append({"what": "size mismatch", "mech": MECH, "detail": {"got": st.size, "exp": model.size}})
        mib = 1 << 20
        reqs = [(i * 2 * mib, 2 * mib) for i in range(min(model.size // (2 * mib), 12))]
        reqs += [(rng.randrange(model.size), rng.randrange(1, 3 * mib)) for _ in range(25)]
        bounds = [p[1] * SECTOR for p in parts[:-1]]
        reqs += [(b - rng.randrange(1, 70000), 140000) for b in bounds]
        compare_reads(st, model, reqs, res, MECH, byte_cap=200 << 20)
        res["cnt"]["fixture_cases"] = 1
        res["nontrivial"] = True
        res["sig"] = ("fixture", case["name"])
        res["sample"] = {"fixture": case["name"], "size": model.size, "requests": reqs[:3]}
        return res

    if k == "snap":
        # a disk with snapshot levels, the same HDD object opened repeatedly (each open() is its own view)
        from vf import chains

        o = call(chains.hdd_snapshots, rng, ctx, depth=rng.choice([2, 3]), top_mode=rng.choice(["default", "explicit"]),
                 nstorages=rng.choice([1, 1, 2]), base_plain=rng.random() < 0.3, open_guid=rng.choice(["top", "some"]))
        if not o.ok:
            res["viol"].append({"what": f"open failed on a conformant snapshot disk: {o.brief()}", "mech": MECH, "detail": {"tb": o.tb}})
            return res
        op = o.value
        reqs, _ = gen_requests(rng, op.model.size, [4096], n_random=20, pair_cap=40)
        reqs.append((0, op.model.size))
        compare_reads(op.stream, op.model, reqs, res, MECH, byte_cap=8 << 20)
        for rep in range(3):
            gid, lm = op.levels[op.info["opened_depth"] - 1] if rep != 1 else rng.choice(op.levels)
            o3 = call(op.hdd.open, gid)
            if not o3.ok:
                res["viol"].append({"what": f"open #{rep + 2} on the same HDD object failed: {o3.brief()}", "mech": MECH, "detail": {"tb": o3.tb}})
                break
            n0 = len(res["viol"])
            compare_reads(o3.value, lm, [(0, lm.size)] + reqs[:10], res, MECH, byte_cap=8 << 20)
            if len(res["viol"]) > n0:
                res["viol"][-1]["what"] += f" (open #{rep + 2} on the same HDD object)"
                break
        res["cnt"]["snapshot_reopen_cases"] = 1
        res["nontrivial"] = True
        res["sig"] = ("snap", case["i"], op.model.size)
        res["sample"] = {"snapshot_disk": op.info}
        return res

    if k == "abs":
        from vf import chains

        o = call(chains.hdd_abs, rng, ctx)
        if not o.ok:
            res["viol"].append({"what": f"open failed although a relocation candidate holds the image: {o.brief()}", "mech": MECH, "detail": {"tb": o.tb}})
            return res
        op = o.value
        reqs, _ = gen_requests(rng, op.model.size, [4096], n_random=30)
        reqs.append((0, op.model.size))
        compare_reads(op.stream, op.model, reqs, res, MECH)
        o2 = call(op.hdd.open)
        if o2.ok:
            compare_reads(o2.value, op.model, reqs[:20], res, MECH)
        else:
            res["viol"].append({"what": f"second open() on the same HDD object failed: {o2.brief()}", "mech": MECH, "detail": {"tb": o2.tb}})
        res["cnt"]["relocated_absolute_path_cases"] = 1
        res["sets"]["relocation_variants"] = [op.info["variant"]]
        res["nontrivial"] = True
        res["sig"] = ("abs", case["i"], op.info["variant"])
        res["sample"] = {"relocation": op.info}
        return res

    if k == "multi":
        # several storages (expanding and plain) behind one HDD: holes of a later storage must read as zeros
        from vf import streams

        o = call(streams.open_kind, "hdd-storages", rng, ctx)
        if not o.ok:
            res["viol"].append({"what": f"open failed on a well-formed multi-storage .hdd: {o.brief()}", "mech": MECH, "detail": {"tb": o.tb}})
            return res
        op = o.value
        reqs, _ = gen_requests(rng, op.model.size, [SECTOR * 8, 8192], n_random=40)
        reqs.append((0, op.model.size))
        compare_reads(op.stream, op.model, reqs, res, MECH)
        res["cnt"]["multi_storage_cases"] = 1
        res["nontrivial"] = True
        res["sig"] = ("multi", case["i"], op.model.size)
        res["sample"] = {"multi_storage": op.info, "size": op.model.size}
        return res

    if k == "plain":
        nsec = rng.randrange(1, 300)
        raw = bytes(rng.getrandbits(8) for _ in range(64)) * (nsec * 8)
        nested = rng.random() < 0.3
        if nested:
            # guest data that itself begins with a (parseable) Parallels image header - an image stored raw at sector 0 of the
            # guest disk: the descriptor says Plain, so these are plain bytes
            inner, _, _ = w.build_hds(rng, version=rng.choice([1, 2]), m_sectors=8, nclusters=rng.randrange(1, 20), tag=rng.getrandbits(32))
            ib = inner.to_bytes()[: len(raw)]
            raw = ib + raw[len(ib):]
        res["cnt"]["plain_images_starting_like_an_hds"] = int(nested)
        d = ctx.tmpdir()
        hd = os.path.join(d, "p.hdd")
        g = w.DEFAULT_TOP
        w.write_hdd_dir(hd, [{"start": 0, "end": nsec, "images": [{"guid": g, "type": "Plain", "file": "p.hdd.0.hds"}]}],
                        [(g, w.NULL_GUID)], files={"p.hdd.0.hds": raw})
        model = BytesModel(raw)
        hobj = call(lambda: HDD(Path(hd)))
        o = call(lambda: hobj.value.open())
        if not o.ok:
            res["viol"].append({"what": f"open failed on plain image: {o.brief()}", "mech": MECH, "detail": {"tb": o.tb}})
            return res
        reqs, _ = gen_requests(rng, model.size, [SECTOR, 8192], n_random=30)
        compare_reads(o.value, model, reqs, res, MECH)
        two_readers(o.value, lambda: hobj.value.open(), model, rng, res, MECH)
        res["cnt"]["plain_cases"] = 1
        res["nontrivial"] = nsec > 1
        res["sig"] = ("plain", nsec)
        res["sample"] = {"plain_sectors": nsec, "n_requests": len(reqs)}
        return res

    ms, n, ver = case["ms"], case["n"], case["ver"]
    tail = rng.choice([0, 0, rng.randrange(0, ms)]) if n else 0
    big_states = None
    if case.get("big"):
        big_states = ["U"] * n
        for c_ in {0, 1, n - 1, n // 2, 65535, rng.randrange(n)}:
            big_states[c_] = "A"
    sf, layer, meta = w.build_hds(
        rng, version=ver, m_sectors=ms, nclusters=n, tail_cut_sectors=tail, placement=case["placement"], states=big_states,
        tag=rng.getrandbits(48), unaligned_v1=case["unaligned"], first_block_gap=rng.choice([0, 0, 1, 3]),
        in_use=rng.random() < 0.2,
    )
    model = Model(meta["size"], [layer])
    if sf.end <= (8 << 20) and case["i"] % 4 == 0:
        from vf.diskcheck import triangulate

        triangulate(rng, RefHDS(sf.to_bytes()), model, "hds")
        res["cnt"]["writer_triangulations"] = 1
    if k == "hds":
        fh = as_handle(sf.to_bytes() if sf.end <= (8 << 20) else sf)
        o = call(HDS, fh)
    else:
        d = ctx.tmpdir()
        hd = os.path.join(d, "x.hdd")
        g = w.DEFAULT_TOP
        fn = "x.hdd.0.{5fbaabe3-6958-40ff-92a7-860e329aab41}.hds"
        w.write_hdd_dir(hd, [{"start": 0, "end": meta["size"] // SECTOR, "images": [{"guid": g, "type": "Compressed", "file": fn}]}],
                        [(g, w.NULL_GUID)], files={fn: sf})
        target = Path(hd) if rng.random() < 0.7 else Path(hd) / "DiskDescriptor.xml"
        hobj = call(lambda: HDD(target))
        o = call(lambda: hobj.value.open())
        fh = None
    if not o.ok:
        res["viol"].append({"what": f"open failed on conformant image: {o.brief()}", "mech": MECH, "detail": {"tb": o.tb}})
        return res
    st = o.value
    if st.size != meta["size"]:
        res["viol"].append({"what": "size mismatch", "mech": MECH, "detail": {"got": st.size, "exp": meta["size"]}})
    cs = meta["cluster_size"]
    extra_pts = [c_ * cs for c_, s_ in enumerate(meta["states"]) if s_ == "A"][:12] if case.get("big") else ()
    reqs, exhaustive = gen_requests(rng, meta["size"], [cs], n_random=40 if ctx.tier == "quick" else 150, extra=extra_pts)
    res["cnt"]["images_of_2TiB_or_more"] = int(meta["size"] >= 1 << 41)
    fault_retry_reads(st, model, reqs, rng, res, MECH, n=3)  # cold caches
    continuation_reads(st, model, reqs, rng, res, MECH)
    fault_retry_reads(st, model, reqs, rng, res, MECH)
    compare_reads(st, model, reqs, res, MECH)
    if k == "hdd":
        two_readers(st, lambda: hobj.value.open(), model, rng, res, MECH)
    elif fh is not None and case.get("i", 0) % 4 == 0 and not case.get("big"):
        closed_handle_reads(st, model, [fh], reqs, rng, res, MECH)
    if fh is not None and fh.mutations:
        res["viol"].append({"what": "handle mutated", "mech": "c09.handle", "detail": {"m": fh.mutations[:3]}})
    states = meta["states"]
    bat = meta["bat"]
    coincid = 0
    for i, s in enumerate(states):
        if s == "A" and i > 0 and states[i - 1] == "U":
            kk = 0
            j = i - 1
            while j >= 0 and states[j] == "U":
                kk += 1
                j -= 1
            off = bat[i] * (SECTOR if ver == 1 else cs)
            if 0 <= kk * cs - off < cs:
                coincid += 1
    res["cnt"]["coincidence_cases"] = 1 if coincid else 0
    res["cnt"]["coincident_clusters"] = coincid
    res["cnt"][f"v{ver}_cases"] = 1
    res["cnt"]["multi_cluster_requests"] = crossing_count(reqs, cs)
    res["cnt"]["exhaustive_request_cases"] = int(exhaustive)
    res["cnt"]["via_hdd_dir"] = int(k == "hdd")
    offs = [b for b in bat if b]
    res["nontrivial"] = n >= 2 and (offs != sorted(offs) or len(set(states)) > 1)
    res["sig"] = (ver, ms, states, tuple(bat), meta["size"])
    res["sets"]["cluster_sectors"] = [ms]
    res["sets"]["unaligned_v1"] = [bool(ver == 1 and any(b % ms for b in offs))]
    res["sample"] = {"version": ver, "cluster_sectors": ms, "states": states[:24], "bat": bat[:12],
                     "first_block": meta["first_block"], "placement": case["placement"], "requests": reqs[:3]}
    return res
