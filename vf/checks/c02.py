"""C02 - VMDK: every byte range of a sparse/flat extent reads as guest content."""
from __future__ import annotations

import gzip
import os
import struct

from vf.core import SECTOR, Model, as_handle, rng_for
from vf.diskcheck import closed_handle_reads, compare_reads, continuation_reads, fault_retry_reads, crossing_count, gen_requests, mismatch_detail
from vf.monitors import call
from vf.writers import vmdk as w

ID = "C02"
LEVEL = "exploration"
CONTRACTS = True  # icontract postconditions on AlignedStream.read/peek/seek fire during this workload too
STEP_BUDGET = 20_000_000  # line events per case; a case that exceeds it is reported as non-termination
HANDLE_CLOSE_CHECK = True
OPEN_INTERPOSE = True  # files the library opens by path (parents, extents, bundle images) are wrapped in observing proxies
ANCHOR_FILES = ["dissect/hypervisor/disk/vmdk.py"]
RULE = (
    "VMDK extents of the four kinds written by independent writers from a content model: hosted sparse KDMV "
    "(versions 1..3, grain 1..256 sectors, 64..1024 GTEs per table, zero-grain GTEs, redundant directory, embedded "
    "descriptor, absent grain tables, tables before/after data, capacities that are not a multiple of the grain, of "
    "16 sectors or of the table coverage, and > 2^32 sectors), stream-optimized KDMV (footer-located directory, "
    "markers, deflate grains incl. incompressible and multi-sector ones), ESX COWD, SE-sparse (all four entry "
    "types, grain indices >= 4096 so both halves of the split index are used) and flat; physical placement "
    "in-order/permuted/adjacent ascending and descending runs; byte requests (exhaustive on tiny extents, boundary "
    "sets + random otherwise) and VMDK.read_sectors; the inflate monitor checks every grain inflates to at most "
    "the grain size; plus the SE-sparse fixture against a naive reference reader. Non-trivial: >=2 allocated "
    "grains not in file order, or a mix of grain states; distinct = distinct (kind, geometry, map) signatures."
    " Every stream additionally goes through: continuation sequences (read, visit elsewhere or have another user move the shared handles, resume at the earlier end / buffer end), reads under an injected transient backend I/O error followed by a retry on the same object (the failed call may raise; returned bytes must be right), and long reads (whole disk up to 24 MiB, else 6-24 MiB windows)."
)
ASSUMPTIONS = [
    "the harness's VMDK writers/reference reader are a faithful reading of the VMDK 5.0 spec and qemu's SE-sparse notes",
    "compressed extents without grain markers are not generated (no known writer of that layout)",
    "held means: held on the executions listed, not verified for all inputs",
]
MINIMA = {
    "quick": {"reads_compared": 4000, "stream_cases": 10, "sesparse_cases": 10, "cowd_cases": 10, "tail_not_buffer_multiple": 20,
              "compressed_grains_inflated": 50},
    "thorough": {"reads_compared": 400000},
}
MECH = "vmdk.read"
DATA = os.path.join(os.environ.get("VF_REPO", "/repo"), "tests", "data")


def plan(tier: str, seed: int) -> list[dict]:
    rng = rng_for(seed, ID, "plan")
    cases = []
    n = 200 if tier == "quick" else 20000
    for i in range(n):
        kind = rng.choice(["hosted", "hosted", "hosted", "stream", "cowd", "sesparse", "sesparse", "flat"])
        cases.append({"k": kind, "i": i, "placement": rng.choice(["seq", "rev", "shuffle", "runs", "runs", "revruns"]), "weight": 2})
    for i in range(3 if tier == "quick" else 20):
        cases.append({"k": "bigcap", "i": i, "weight": 4})
    for i in range(16 if tier == "quick" else 400):
        cases.append({"k": "multi", "i": i, "placement": "shuffle", "weight": 2})
    for i in range(16 if tier == "quick" else 400):
        cases.append({"k": "desc", "i": i, "placement": "shuffle", "weight": 2})
    cases.append({"k": "fixture", "name": "sesparse.vmdk.gz", "weight": 10})
    return cases


class RefSESparse:
    def __init__(self, raw: bytes):
        self.raw = raw
        f = struct.unpack_from("<26Q", raw, 0)
        self.cap, self.grain, self.gts = f[2], f[3], f[4]
        self.gd_off, self.gd_size, self.gt_off, self.grains_off = f[16], f[17], f[18], f[24]
        self.ngte = self.gts * SECTOR // 8
        self.size = self.cap * SECTOR

    def grain_bytes(self, g: int) -> bytes:
        gb = self.grain * SECTOR
        t, e = divmod(g, self.ngte)
        gde = struct.unpack_from("<Q", self.raw, self.gd_off * SECTOR + 8 * t)[0]
        if gde >> 60 != 1:
            return b"\0" * gb
        toff = (self.gt_off + (gde & 0xFFFFFFFF) * self.gts) * SECTOR
        gte = struct.unpack_from("<Q", self.raw, toff + 8 * e)[0]
        if gte >> 60 != 3:
            return b"\0" * gb
        idx = ((gte >> 48) & 0xFFF) | ((gte & 0xFFFFFFFFFFFF) << 12)
        o = (self.grains_off + idx * self.grain) * SECTOR
        return self.raw[o : o + gb].ljust(gb, b"\0")

    def expected(self, off: int, n: int) -> bytes:
        if off >= self.size or n <= 0:
            return b""
        n = min(n, self.size - off)
        gb = self.grain * SECTOR
        g0, g1 = off // gb, (off + n - 1) // gb
        buf = b"".join(self.grain_bytes(g) for g in range(g0, g1 + 1))
        return buf[off - g0 * gb : off - g0 * gb + n]


def _cap(rng, grain: int, ngte: int, max_sectors: int = 6000) -> int:
    cov = grain * ngte
    choice = rng.random()
    if choice < 0.25:
        c = rng.randrange(1, min(max_sectors, 64) + 1)
    elif choice < 0.5 and cov <= max_sectors:
        c = cov * rng.randrange(1, max(2, max_sectors // cov)) + rng.choice([0, 0, 1, -1, grain, rng.randrange(cov)])
    else:
        c = rng.randrange(1, max_sectors + 1)
    return max(1, min(c, max_sectors))


def table_states(rng, ngr: int, ngte: int, alphabet: str) -> dict:
    """Per-table structure: whole tables absent / sparse / dense, so absent tables sit next to populated ones."""
    st = {}
    nt = -(-ngr // ngte)
    for t in range(nt):
        mode = rng.choice(["absent", "absent", "dense", "sparse", "mixed"])
        lo, hi = t * ngte, min((t + 1) * ngte, ngr)
        if mode == "absent":
            continue
        if mode == "dense":
            for g in range(lo, hi):
                st[g] = "A"
        elif mode == "sparse":
            for _ in range(rng.randrange(1, 8)):
                st[rng.randrange(lo, hi)] = "A"
            st[rng.choice([lo, hi - 1])] = "A"
        else:
            for g in range(lo, hi):
                s_ = rng.choice(alphabet)
                if s_ != "U":
                    st[g] = s_
    return st


def run(case: dict, ctx) -> dict:
    from dissect.hypervisor.disk.vmdk import VMDK

    res = {"cnt": {}, "viol": [], "sets": {}}
    rng = rng_for(ctx.seed, ID, case["k"], case.get("i"), case.get("name"))
    k = case["k"]
    quick = ctx.tier == "quick"
    if k == "fixture":
        raw = gzip.open(os.path.join(DATA, case["name"])).read()
        model = RefSESparse(raw)
        o = call(VMDK, as_handle(raw))
        if not o.ok:
            res["viol"].append({"what": f"open failed on fixture: {o.brief()}", "mech": MECH, "detail": {"tb": o.tb}})
            return res
        reqs, _ = gen_requests(rng, model.size, [model.grain * SECTOR, model.ngte * model.grain * SECTOR, 8192], n_random=60, max_len=1 << 20)
        compare_reads(o.value, model, reqs, res, MECH, byte_cap=80 << 20)
        res["cnt"]["fixture_cases"] = 1
        res["nontrivial"] = True
        res["sig"] = ("fixture", case["name"])
        res["sample"] = {"fixture": case["name"], "size": model.size, "n_requests": len(reqs)}
        return res

    if k == "desc":
        # extents named by a descriptor file: every extent occupies exactly the sectors its line declares, also when the flat
        # backing file is longer than that (preallocated / rounded up) and other extents follow
        from pathlib import Path

        from vf.core import ConcatModel

        d = Path(ctx.tmpdir())
        lines, parts = [], []
        for j in range(rng.randrange(2, 5)):
            kind = rng.choice(["FLAT", "FLAT", "VMFS", "SPARSE", "VMFSSPARSE"])
            tg = rng.getrandbits(48)
            if kind in ("FLAT", "VMFS"):
                nsec = rng.randrange(1, 400)
                sfx, lay, m = w.build_flat(rng, nsectors=nsec + rng.choice([0, 0, 1, 7, 64]), tag=tg)
                cap_j = nsec
                if rng.random() < 0.3:
                    # guest data that begins like a sparse extent (an image stored inside the guest, or four unlucky bytes): the
                    # extent line says FLAT / VMFS, so these are plain bytes
                    magic = rng.choice([b"KDMV", b"COWD", struct.pack("<Q", 0xCAFEBABE)])
                    lay.override[0] = (magic + bytes(rng.randrange(256) for _ in range(SECTOR)))[:SECTOR]
                    res["cnt"]["flat_extents_starting_with_a_sparse_magic"] = res["cnt"].get("flat_extents_starting_with_a_sparse_magic", 0) + 1
            elif kind == "SPARSE":
                cap_j = rng.randrange(1, 900)
                sfx, lay, m = w.build_hosted(rng, capacity=cap_j, grain=rng.choice([1, 8, 16]), ngte=64, placement="shuffle", tag=tg)
            else:
                cap_j = rng.randrange(1, 900)
                sfx, lay, m = w.build_cowd(rng, capacity=cap_j, grain=rng.choice([1, 8]), placement="shuffle", tag=tg)
            fn = f"e{j}-{kind.lower()}.vmdk"
            sfx.write_to(d / fn)
            lines.append(f'RW {cap_j} {kind} "{fn}"' + (" 0" if kind in ("FLAT", "VMFS") and rng.random() < 0.6 else ""))
            parts.append(Model(cap_j * SECTOR, [lay]))
        stale_hint = rng.random() < 0.3
        (d / "disk.vmdk").write_text(w.descriptor_text(lines, create_type="twoGbMaxExtentFlat", parent_hint="former-parent.vmdk" if stale_hint else None))
        model = ConcatModel(parts)
        if stale_hint:
            # parentCID says "no parent"; the hint is a leftover and a file of that name happens to lie next to the disk: absent
            # grains are zeros, not that file's bytes
            psf, _, _ = w.build_flat(rng, nsectors=model.size // SECTOR, tag=rng.getrandbits(48))
            psf.write_to(d / "former-parent-flat.vmdk")
            (d / "former-parent.vmdk").write_text(w.descriptor_text([f'RW {model.size // SECTOR} FLAT "former-parent-flat.vmdk" 0'], create_type="monolithicFlat"))
            res["cnt"]["base_disks_with_a_leftover_parent_hint"] = 1
        o = call(VMDK, d / "disk.vmdk")
        if not o.ok:
            res["viol"].append({"what": f"open failed on a well-formed descriptor: {o.brief()}", "mech": MECH, "detail": {"tb": o.tb, "lines": lines}})
            return res
        v = o.value
        if v.size != model.size:
            res["viol"].append({"what": "size is not the sum of the declared extent sizes", "mech": MECH, "detail": {"got": v.size, "exp": model.size, "lines": lines}})
        bounds = []
        acc = 0
        for p_ in parts:
            acc += p_.size
            bounds.append(acc)
        reqs, _ = gen_requests(rng, model.size, [8192], n_random=30, extra=bounds)
        compare_reads(v, model, reqs, res, MECH)
        for _ in range(8):
            if res["viol"]:
                break
            s0 = rng.randrange(model.size // SECTOR)
            c0 = rng.randrange(1, min(model.size // SECTOR - s0, 200) + 1)
            o2 = call(v.read_sectors, s0, c0)
            if not o2.ok or o2.value != model.expected(s0 * SECTOR, c0 * SECTOR):
                res["viol"].append({"what": "read_sectors content mismatch", "mech": MECH, "detail": {"sector": s0, "count": c0, "outcome": o2.brief(), "lines": lines}})
        res["cnt"]["descriptor_extent_cases"] = 1
        res["nontrivial"] = True
        res["sig"] = ("desc", case["i"], model.size)
        res["sample"] = {"descriptor_lines": lines}
        return res
    if k == "multi":
        # the same extent kinds as later members of an explicit handle list (each extent keeps its own sector range)
        from vf import streams

        o = call(streams.open_kind, "vmdk-multi", rng, ctx)
        if not o.ok:
            res["viol"].append({"what": f"open failed on conformant extents: {o.brief()}", "mech": MECH, "detail": {"tb": o.tb}})
            return res
        op = o.value
        reqs, _ = gen_requests(rng, op.model.size, [8192, SECTOR * 8], n_random=40)
        reqs.append((0, op.model.size))
        compare_reads(op.stream, op.model, reqs, res, MECH)
        res["cnt"]["extent_list_cases"] = 1
        res["nontrivial"] = True
        res["sig"] = ("multi", case["i"], op.model.size)
        res["sample"] = {"extent_list": op.info, "size": op.model.size}
        return res
    placement = case.get("placement", "shuffle")
    tag = rng.getrandbits(48)
    desc = None
    if k == "hosted":
        grain = rng.choice([1, 2, 4, 8, 8, 16, 64, 128, 256, 2048, 8192])  # up to 4 MiB grains
        # (the entry count of a grain table is a header field; VMware writes 512, nothing requires a power of two)
        ngte = rng.choice([512, 512, 512, 64, 128, 1024, 100, 24, 384, 129])
        cap = _cap(rng, grain, ngte, 6000 if grain < 64 else (20000 if grain < 2048 else 6 * grain))
        if rng.random() < 0.4:
            # (a disk without a parent - parentCID ffffffff - may still carry the file name hint of a parent it once had)
            desc = w.descriptor_text([f'RW {cap} SPARSE "x.vmdk"'], crlf=rng.random() < 0.3, parent_hint="former-parent.vmdk" if rng.random() < 0.25 else None)
        zero_gte = rng.random() < 0.6
        far = 0
        if rng.random() < 0.2:
            # grains at file sectors around and beyond 2^31 (grain table entries are unsigned 32-bit sector numbers)
            far = rng.choice([(1 << 31) - 3 * grain, 1 << 31, 0xC0000000 + 7 * grain, 0xFFFFFFFF - 40 * grain])
        if rng.random() < 0.35:
            # several small grain tables, some of them absent
            grain = rng.choice([1, 2, 8])
            ngte = rng.choice([64, 128, 96, 50, 7])
            cap = grain * ngte * rng.randrange(2, 7) + rng.randrange(0, grain * ngte)
        tight_gd = not far and rng.random() < 0.15
        if tight_gd:
            # capacity an exact multiple of what one grain table covers, 128 (or 256) directory entries, and the directory as
            # the last structure of the file: nothing may be read beyond it
            grain, ngte = rng.choice([1, 1, 8]), rng.choice([4, 16, 64])
            cap = grain * ngte * rng.choice([128, 128, 256])
            desc = None
        ngr = -(-cap // grain)
        if tight_gd:
            st = {g: "A" for g in rng.sample(range(ngr), min(ngr, 30))}
        elif -(-ngr // ngte) >= 2 and rng.random() < 0.7:
            st = table_states(rng, ngr, ngte, "AAUZ" if zero_gte else "AAU")
        else:
            st = [rng.choice("AAUZ" if zero_gte else "AAU") for _ in range(ngr)]
        sf, layer, meta = w.build_hosted(
            rng, capacity=cap, grain=grain, ngte=ngte, states=st, placement=placement, tag=tag, version=rng.choice([1, 1, 2, 3]),
            zero_gte=zero_gte, redundant=rng.random() < 0.4, descriptor=desc, align_grains=rng.random() < 0.6,
            tables_after_data=True if tight_gd else rng.random() < 0.3, far_sector=far, gd_in_footer=(not far and not tight_gd and rng.random() < 0.2),
            # the directory may also come behind the grain tables (a first grain table right after the header: directory entry 1)
            gd_last=tight_gd or rng.random() < 0.2, redundant_override=False if tight_gd else None,
        )
        res["cnt"]["directory_is_last_structure_cases"] = int(tight_gd)
    elif k == "stream":
        grain = rng.choice([8, 16, 32, 64, 128])
        ngte = rng.choice([512, 512, 128])
        cap = _cap(rng, grain, ngte, 3000 if grain <= 16 else 9000)
        st = None
        if rng.random() < 0.25:
            # many grain tables (a directory of more than one sector), most of them absent
            ngte = rng.choice([4, 16, 64, 512])
            ngd = rng.randrange(129, 400)
            cap = ngd * ngte * grain - rng.randrange(0, ngte * grain)
            ngr = -(-cap // grain)
            st = {g: "A" for g in rng.sample(range(ngr), min(ngr, 40))}
            st.update({g + 1: "A" for g in list(st) if g + 1 < ngr and rng.random() < 0.5})
        desc = w.descriptor_text([f'RW {cap} SPARSE "x.vmdk"'], create_type="streamOptimized") if rng.random() < 0.6 else None
        sf, layer, meta = w.build_stream_optimized(rng, capacity=cap, grain=grain, ngte=ngte, tag=tag, descriptor=desc, states=st,
                                                   level=rng.choice([1, 6, 9]), version=rng.choice([1, 3]), slots=rng.random() < 0.4,
                                                   embedded_lba=rng.random() < 0.75)
        res["cnt"]["stream_directory_over_one_sector_cases"] = int(-(-cap // (ngte * grain)) > 128)
    elif k == "cowd":
        grain = rng.choice([1, 1, 2, 8, 16, 128])
        if grain <= 2 and rng.random() < 0.7:
            cap = 4096 * grain * rng.randrange(2, 6) + rng.randrange(0, 4096 * grain)
        else:
            cap = _cap(rng, grain, 4096, 12000 if grain < 16 else 70000)
        ngr = -(-cap // grain)
        if ngr > 4096:
            st = table_states(rng, ngr, 4096, "AAU")
        else:
            st = {g: "A" for g in range(ngr) if rng.random() < (0.6 if ngr < 400 else 60 / ngr)}
        far = rng.choice([(1 << 31) - 3 * grain, 1 << 31, 0xC0000000 + 7 * grain, 0xFFFFFFFF - 40 * grain]) if rng.random() < 0.2 else 0
        sf, layer, meta = w.build_cowd(rng, capacity=cap, grain=grain, states=st, placement=placement, tag=tag, far_sector=far)
    elif k == "sesparse":
        grain = rng.choice([8, 8, 1, 16])
        gts = rng.choice([64, 64, 1, 2, 8])
        ngte = gts * 64
        cap = _cap(rng, grain, ngte, 8000)
        ngr = -(-cap // grain)
        st = table_states(rng, ngr, ngte, "AAUFZ") if (-(-ngr // ngte) >= 2 and rng.random() < 0.6) else None
        sf, layer, meta = w.build_sesparse(rng, capacity=cap, grain=grain, gt_sectors=gts, states=st, placement=placement, tag=tag,
                                           big_index=rng.random() < 0.6, huge_index=rng.random() < 0.3)
    elif k == "flat":
        cap = rng.choice([1, 15, 16, 17, rng.randrange(1, 3000)])
        sf, layer, meta = w.build_flat(rng, nsectors=cap, tag=tag)
        grain = 16
    else:  # bigcap: > 2^32 sectors, a handful of allocated grains incl. the very last one
        grain = 128
        ngte = 512
        cap = (1 << 32) + rng.randrange(1, 1 << 24)
        ngr = -(-cap // grain)
        picks = {0, 1, ngr - 1, ngr - 2, (1 << 32) // grain - 1, (1 << 32) // grain, (1 << 32) // grain + 1}
        picks |= {rng.randrange(ngr) for _ in range(6)}
        st = {g: rng.choice("AAZ") for g in picks}
        st[ngr - 1] = "A"
        st[(1 << 32) // grain] = "A"
        # a run of explicitly zeroed grains longer than any plausible scratch buffer (40 ... 150 MiB), followed by data
        zrun_at = rng.randrange(ngte, ngr - 4000)
        zrun_len = rng.choice([660, 1100, 2400])
        for g in range(zrun_at, zrun_at + zrun_len):
            st[g] = "Z"
        st[zrun_at + zrun_len] = "A"
        sf, layer, meta = w.build_hosted(rng, capacity=cap, grain=grain, ngte=ngte, states=st, placement=placement, tag=tag)
    size = meta["size"]
    model = Model(size, [layer])
    if k == "sesparse" and sf.end <= (48 << 20) and case["i"] % 2 == 0:
        from vf.diskcheck import triangulate

        triangulate(rng, RefSESparse(sf.to_bytes()), model, "sesparse")
        res["cnt"]["writer_triangulations"] = 1
    if k in ("hosted", "cowd") and sf.end <= (16 << 20) and case["i"] % 3 == 0 and not meta.get("tables_after"):
        from vf.diskcheck import triangulate
        from vf.refreaders import RefVMDKSparse

        triangulate(rng, RefVMDKSparse(sf.to_bytes()), model, "vmdk-" + k)
        res["cnt"]["writer_triangulations"] = res["cnt"].get("writer_triangulations", 0) + 1
    fh = as_handle(sf.to_bytes() if sf.end <= (6 << 20) else sf)
    o = call(VMDK, fh)
    if not o.ok:
        res["viol"].append({"what": f"open failed on conformant extent: {o.brief()}", "mech": MECH, "detail": {"tb": o.tb}})
        return res
    v = o.value
    if v.size != size:
        res["viol"].append({"what": "size mismatch", "mech": MECH, "detail": {"got": v.size, "exp": size}})
    gb = grain * SECTOR
    units = [gb]
    if k in ("hosted", "stream", "cowd", "sesparse", "bigcap"):
        units.append(gb * meta["ngte"])
    extra = []
    if k == "bigcap":
        extra = [g * gb for g in st] + [(g + 1) * gb for g in st] + [1 << 41]
    reqs, exhaustive = gen_requests(rng, size, units, n_random=40 if quick else 150, max_len=1 << 20, extra=extra)
    if len(units) > 1 and units[1] < size and k != "bigcap":
        # start somewhere inside one grain table's range and run past its end (and the next one's)
        cov = units[1]
        for _ in range(12):
            t = rng.randrange(0, max(1, size // cov))
            a = t * cov + rng.randrange(0, cov)
            reqs.append((a, min(rng.randrange(cov // 2, 2 * cov + 2), 3 << 20)))
        res["cnt"]["table_crossing_requests"] = 12
    fault_retry_reads(v, model, reqs, rng, res, MECH, n=3)  # cold caches
    continuation_reads(v, model, reqs, rng, res, MECH)
    fault_retry_reads(v, model, reqs, rng, res, MECH)
    compare_reads(v, model, reqs, res, MECH)
    if k == "bigcap" and not res["viol"]:
        # single requests of 33 ... 160 MiB across one uninterrupted run of absent (and of zeroed) grains, ending in stored data
        huge = [(max(0, zrun_at * gb - rng.randrange(0, 3 * gb)), (zrun_len + 2) * gb + rng.randrange(0, gb))]
        a_grain = rng.choice(sorted(g for g, s_ in st.items() if s_ == "A" and g * gb > (200 << 20) and not zrun_at - 4000 < g < zrun_at + 4000))
        lead = rng.choice([33 << 20, 65 << 20, 129 << 20]) + rng.randrange(0, gb)
        huge.append((a_grain * gb - lead, lead + gb + rng.randrange(0, gb)))
        compare_reads(v, model, huge, res, MECH, byte_cap=1 << 30)
        res["cnt"]["requests_over_32MiB"] = len(huge)
    # sector interface
    total = meta["capacity"]
    for _ in range(10):
        if res["viol"]:
            break
        s0 = rng.randrange(total) if not extra or rng.random() < 0.3 else min(max(0, rng.choice(extra) // SECTOR - rng.randrange(0, 20)), total - 1)
        c = rng.randrange(1, min(total - s0, 3 * grain + 40) + 1)
        o2 = call(v.read_sectors, s0, c)
        exp = model.expected(s0 * SECTOR, c * SECTOR)
        res["cnt"]["sector_reads_compared"] = res["cnt"].get("sector_reads_compared", 0) + 1
        if not o2.ok:
            res["viol"].append({"what": f"read_sectors raised: {o2.brief()}", "mech": MECH, "detail": {"sector": s0, "count": c, "tb": o2.tb}})
        elif o2.value != exp:
            res["viol"].append({"what": "read_sectors content mismatch", "mech": MECH, "detail": mismatch_detail(s0 * SECTOR, c * SECTOR, o2.value, exp)})
    # inflate monitor: every grain inflates to at most the grain size
    infl = [e for e in ctx.inflate.events if "vmdk.py" in e["site"]]
    res["cnt"]["compressed_grains_inflated"] = len(infl)
    for e in infl:
        if e["out"] > gb:
            res["viol"].append({"what": "grain inflated beyond the grain size", "mech": "vmdk.inflate", "detail": e})
            break
    # (a single case may well miss every allocated grain of a large, almost empty extent; that the inflate monitor sees the
    # reader at all is a property of the whole run: MINIMA["compressed_grains_inflated"])
    res["cnt"]["stream_cases_without_inflate"] = int(k == "stream" and not infl)
    if fh.mutations:
        res["viol"].append({"what": "handle mutated", "mech": "c09.handle", "detail": {"m": fh.mutations[:3]}})
    if case["i"] % 4 == 0 and k != "bigcap":
        closed_handle_reads(v, model, [fh], reqs, rng, res, MECH)
    res["cnt"][f"{k}_cases"] = 1
    res["cnt"]["exhaustive_request_cases"] = int(exhaustive)
    res["cnt"]["multi_grain_requests"] = crossing_count(reqs, gb)
    res["cnt"]["tail_not_buffer_multiple"] = int(size % 8192 != 0)
    res["cnt"]["past_end_backend_reads"] = fh.past_end_reads
    if k == "stream":
        res["cnt"]["multi_sector_compressed_grains"] = meta["multi_sector_grains"]
        res["cnt"]["incompressible_grains"] = meta["incompressible_grains"]
        res["cnt"]["tuned_grains_ending_near_sector_boundary"] = meta["tuned_grains"]
        res["sets"]["marker+stream_end_residues_mod_512"] = meta["end_residues"]
    if k == "sesparse":
        res["cnt"]["sesparse_big_index_cases"] = int(meta["max_index"] >= 4096)
    states = meta.get("states") or ""
    res["nontrivial"] = len(set(states)) > 1 or k in ("bigcap",) or (k == "flat" and size > SECTOR)
    res["sig"] = (k, grain, meta.get("ngte"), meta["capacity"], states[:200], placement)
    res["sets"]["kinds"] = [k]
    res["sets"]["grain_sectors"] = [grain]
    if "ngte" in meta:
        res["sets"]["gtes_per_table"] = [meta["ngte"]]
    res["sample"] = {"kind": k, "grain": grain, "capacity": meta["capacity"], "states": states[:40], "placement": placement,
                     "embedded_descriptor": desc is not None, "requests": reqs[:3]}
    return res
