"""C10 - Descriptor-driven multi-extent assembly and size accounting."""
from __future__ import annotations

import struct

import os
from pathlib import Path

from vf.core import SECTOR, ConcatModel, Model, as_handle, rng_for
from vf.diskcheck import compare_reads, continuation_reads, fault_retry_reads, gen_requests, mismatch_detail
from vf.monitors import call
from vf.writers import hds as whds
from vf.writers import vmdk as w

ID = "C10"
LEVEL = "exploration"
CONTRACTS = True  # icontract postconditions on AlignedStream.read/peek/seek fire during this workload too
STEP_BUDGET = 20_000_000
HANDLE_CLOSE_CHECK = True
OPEN_INTERPOSE = True  # files the library opens by path (parents, extents, bundle images) are wrapped in observing proxies
ANCHOR_FILES = ["dissect/hypervisor/disk/vmdk.py", "dissect/hypervisor/disk/hdd.py"]
RULE = (
    "Disks assembled from several backing files on real temp directories: VMDK descriptors naming 1..8 extents of "
    "kinds FLAT, VMFS, SPARSE (hosted), VMFSSPARSE (COWD) and SESPARSE in any mix and order, extent sizes from one "
    "sector up (not multiples of the stream buffer), file names with spaces, '#', quotes inside, parentheses, unicode "
    "and emoji, CRLF/LF, comments; opened as VMDK(Path), VMDK(str), VMDK(open(path)) and as an explicit list of extent "
    "handles; multi-extent delta children over a parent (unallocated grains of later extents come from the parent at the disk "
    "sector); Parallels directories with 2..6 storages (Compressed and Plain) listed in shuffled order. Oracle: the "
    "concatenation of the extents' content models; size == sum of sectors x 512; every data-bearing extent named in "
    "the descriptor is present in the assembled disk; requests straddle every extent boundary and the disk tail, "
    "through bytes and read_sectors. Non-trivial: >= 2 extents; distinct = (kind sequence, sizes, access path)."
)
ASSUMPTIONS = [
    "FLAT extents are generated with start offset 0 and ZERO/RDM extents are not generated (not covered by the statement)",
    "writers/content models as in C02 and C06",
    "held means: held on the executions listed, not verified for all descriptors",
]
MINIMA = {"quick": {"reads_compared": 3000, "boundary_straddling_requests": 500, "sesparse_extents": 10, "hdd_cases": 20, "special_name_cases": 30, "multi_extent_delta_cases": 8},
          "thorough": {"reads_compared": 300000}}
MECH = "multi-extent"
NAMES = ["disk", "my disk", "Windows 10 x64 #2", "d (copy)", "dísk-ü", "диск", "磁盘", "disk😀", "a'b", 'q"uote', "x #1 y", "sp  ace", "tab-x", "100% real", "semi;colon", "eq=sign",
         # an embedded quote followed by a blank and a few tokens (looks like the end of the quoted name, is not)
         'my "old" 2 disk', 'q" 5 b', 'copy" 0 x y', 'end" 7',
         # characters that some line-splitting routines (not the format) treat as line ends
         "line\u2028sep", "para\u2029graph", "next\u0085line", "vt\x0btab", "form\x0cfeed", "fs\x1cgs\x1drs\x1e"]


def plan(tier: str, seed: int) -> list[dict]:
    cases = []
    n = 110 if tier == "quick" else 12000
    for i in range(n):
        cases.append({"k": "vmdk", "i": i})
    for i in range(30 if tier == "quick" else 3000):
        cases.append({"k": "hdd", "i": i})
    for j in range(2 if tier == "quick" else 12):
        # a storage of 2 TiB and more (64-bit sector counts in the descriptor and in the version-2 image header)
        cases.append({"k": "hdd", "i": 9000 + j, "big": True, "weight": 12})
    for i in range(16 if tier == "quick" else 300):
        cases.append({"k": "vmdk-delta-multi", "i": i})
    for i in range(12 if tier == "quick" else 300):
        # several storages, each a chain of snapshot images; the same HDD object opened again and again
        cases.append({"k": "hdd-chain", "i": i})
    for i in range(4 if tier == "quick" else 40):
        # descriptor files far larger than the usual few hundred bytes (a thousand and more extents, or long annotations)
        cases.append({"k": "vmdk", "i": 50000 + i, "long": ["many", "notes"][i % 2], "weight": 6})
    return cases


def _extent(rng, kind: str, tag: int):
    if kind in ("FLAT", "VMFS"):
        n = rng.choice([1, 2, 15, 16, 17, rng.randrange(1, 600)])
        sf, layer, meta = w.build_flat(rng, nsectors=n, tag=tag)
        if rng.random() < 0.25:
            # guest data that itself starts like a sparse extent (a VMDK stored raw inside the guest): the descriptor line says
            # FLAT, so it is served as plain bytes
            inner = rng.choice(["kdmv", "kdmv-junk", "cowd", "sesparse"])
            if inner == "kdmv":
                hdr = w.kdmv_header(version=1, flags=3, capacity=rng.randrange(1, 5000), grain=8, desc_off=0, desc_size=0, ngte=512, rgd_off=0, gd_off=1, overhead=2)
            elif inner == "kdmv-junk":
                hdr = b"KDMV" + bytes(rng.randrange(256) for _ in range(508))
            elif inner == "cowd":
                hdr = (b"COWD" + struct.pack("<IIIIIII", 1, 3, rng.randrange(1, 5000), 8, 4, 1, 100)).ljust(512, b"\0")
            else:
                hdr = struct.pack("<QQQQ", 0xCAFEBABE, 0x200000001, rng.randrange(8, 5000), 8).ljust(512, b"\0")
            layer.override[0] = hdr[:512]
            layer.looks_sparse = True
        if rng.random() < 0.1:
            sf.size += SECTOR * rng.randrange(1, 4)  # backing file longer than the extent's sector range
    elif kind == "SPARSE":
        grain = rng.choice([1, 8, 16, 128])
        n = rng.choice([1, grain, grain + 1, rng.randrange(1, 900)])
        sf, layer, meta = w.build_hosted(rng, capacity=n, grain=grain, ngte=rng.choice([64, 512]), placement="shuffle", tag=tag)
    elif kind == "VMFSSPARSE":
        grain = rng.choice([1, 8, 16])
        n = rng.choice([1, rng.randrange(1, 900), 4096 * grain + rng.randrange(1, 50)])
        ngr = -(-n // grain)
        st = {g: "A" for g in range(ngr) if rng.random() < (0.6 if ngr < 300 else 40 / ngr)}
        sf, layer, meta = w.build_cowd(rng, capacity=n, grain=grain, states=st, placement="shuffle", tag=tag)
    else:
        n = rng.choice([1, 8, 9, rng.randrange(1, 900)])
        sf, layer, meta = w.build_sesparse(rng, capacity=n, grain=8, gt_sectors=1, placement="shuffle", tag=tag, big_index=rng.random() < 0.5)
    return sf, layer, meta["capacity"]


def run(case: dict, ctx) -> dict:
    res = {"cnt": {}, "viol": [], "sets": {}}
    cnt = res["cnt"]
    rng = rng_for(ctx.seed, ID, case["k"], case["i"])
    quick = ctx.tier == "quick"
    d = Path(ctx.tmpdir())
    if case["k"] == "hdd-chain":
        from vf import chains

        o = call(chains.hdd_snapshots, rng, ctx, depth=rng.choice([2, 3]), top_mode=rng.choice(["default", "explicit"]), nstorages=rng.choice([2, 3]),
                 base_plain=rng.random() < 0.5)
        if not o.ok:
            res["viol"].append({"what": f"open failed on a well-formed .hdd: {o.brief()}", "mech": MECH, "detail": {"tb": o.tb}})
            return res
        op = o.value
        streams_ = [op.stream]
        for n_open in range(2, 5):
            o2 = call(op.hdd.open)
            if not o2.ok:
                res["viol"].append({"what": f"open #{n_open} of the same HDD object failed: {o2.brief()}", "mech": MECH, "detail": {"tb": o2.tb}})
                return res
            streams_.append(o2.value)
        reqs, _ = gen_requests(rng, op.model.size, [8192], n_random=20)
        reqs.append((0, op.model.size))
        for n_open, st_ in enumerate(streams_, 1):
            before = len(res["viol"])
            compare_reads(st_, op.model, reqs, res, MECH)
            if len(res["viol"]) > before:
                res["viol"][-1]["detail"]["open_number_on_the_same_object"] = n_open
                break
        cnt["hdd_chain_cases"] = 1
        cnt["streams_opened_from_one_hdd_object"] = len(streams_)
        res["nontrivial"] = True
        res["sig"] = ("hdd-chain", case["i"], op.model.size)
        res["sample"] = {"hdd_chain": op.info, "size": op.model.size}
        return res
    if case["k"] == "vmdk-delta-multi":
        # a child made of several sparse extents over a parent: unallocated grains of a later extent must be
        # fetched from the parent at the *disk* sector, not the extent-relative one
        from vf import chains

        o = call(chains.vmdk_delta, rng, ctx, depth=rng.choice([2, 3]), parent_config="samedir", child_kind="multi")
        if not o.ok:
            res["viol"].append({"what": f"open failed on a well-formed multi-extent delta: {o.brief()}", "mech": MECH, "detail": {"tb": o.tb}})
            return res
        op = o.value
        if op.stream.size != op.model.size:
            res["viol"].append({"what": "size is not the sum of the extents", "mech": MECH, "detail": {"got": op.stream.size, "exp": op.model.size}})
        reqs, _ = gen_requests(rng, op.model.size, [8192, SECTOR * 8], n_random=40)
        reqs.append((0, op.model.size))
        compare_reads(op.stream, op.model, reqs, res, MECH)
        cnt["multi_extent_delta_cases"] = 1
        res["nontrivial"] = True
        res["sig"] = ("delta-multi", case["i"], op.model.size)
        res["sample"] = {"multi_extent_delta": op.info, "size": op.model.size}
        return res
    if case["k"] == "vmdk":
        from dissect.hypervisor.disk.vmdk import VMDK

        n = rng.choice([1, 2, 2, 3, 4, 5, 8])
        base = rng.choice(NAMES)
        long_mode = case.get("long")
        if long_mode == "many":
            n = rng.randrange(900, 1500)
            base = "disk with a fairly long base name so that every extent line takes its share of the descriptor"
        lines, parts, files, kinds, caps = [], [], [], [], []
        zero_extents = 0
        for j in range(n):
            kind = rng.choice(["FLAT", "VMFS", "SPARSE", "VMFSSPARSE", "SESPARSE", "SESPARSE"])
            if long_mode == "many":
                kind = "FLAT"
                sf, layer, meta_ = w.build_flat(rng, nsectors=rng.choice([1, 1, 2, 3]), tag=rng.getrandbits(48))
                cap = meta_["size"] // SECTOR
            else:
                sf, layer, cap = _extent(rng, kind, rng.getrandbits(48))
            suffix = {"FLAT": f"-f{j + 1:03d}", "VMFS": "-flat", "SPARSE": f"-s{j + 1:03d}", "VMFSSPARSE": "-delta", "SESPARSE": "-sesparse"}[kind]
            fn = f"{base}{suffix}{j if kind in ('VMFS', 'VMFSSPARSE', 'SESPARSE') else ''}.vmdk"
            sf.write_to(d / fn)
            if kind in ("FLAT", "VMFS") and cap > 2 and rng.random() < 0.25:
                # a flat file longer than the extent line says (preallocated / rounded up): the declared sector count decides
                cap -= rng.randrange(1, min(cap, 20))
                layer_cut = True
            else:
                layer_cut = False
            access = rng.choice(["RW", "RW", "RDONLY"])
            lines.append(f'{access} {cap} {kind} "{fn}"' + (" 0" if kind in ("FLAT", "VMFS") and rng.random() < 0.7 else ""))
            parts.append(Model(cap * SECTOR, [layer]))
            files.append(fn)
            kinds.append(kind)
            caps.append(cap)
            if long_mode is None and j + 1 < n and rng.random() < 0.06:
                # an extent of zero sectors between two others (an empty slice left by a tool): it contributes nothing, the
                # extents behind it follow at once. (A reader may refuse such a descriptor; it must not serve less than the disk.)
                (d / f"{base}-empty{j}.vmdk").write_bytes(b"")
                lines.append(f'RW 0 FLAT "{base}-empty{j}.vmdk" 0')
                parts.append(Model(0, []))
                files.append(f"{base}-empty{j}.vmdk")
                kinds.append("FLAT")
                caps.append(0)
                zero_extents += 1
        notes = {f"vf.annotation{q}": "x" * 190 for q in range(400)} if long_mode == "notes" else None
        text = w.descriptor_text(lines, crlf=rng.random() < 0.3, comments=rng.random() < 0.8, spacing=rng.choice(["", " "]), extra=notes,
                                 create_type=rng.choice(["twoGbMaxExtentSparse", "vmfs", "seSparse", "monolithicFlat"]))
        dpath = d / f"{base}.vmdk"
        dpath.write_text(text, encoding="utf-8", newline="")
        model = ConcatModel(parts)
        path_mode = rng.choice(["path", "str", "fh", "list"] if long_mode != "many" and not zero_extents else ["path", "str", "fh"])
        handles = []
        if path_mode == "path":
            o = call(VMDK, dpath)
        elif path_mode == "str":
            o = call(VMDK, str(dpath))
        elif path_mode == "fh":
            fh = open(dpath, "rb")
            handles.append(fh)
            o = call(VMDK, fh)
        else:
            fhs = [open(d / f, "rb") for f in files]
            handles += fhs
            # explicit lists carry no sizes for flat extents: a longer backing file would legitimately be used in full
            # ... and without a descriptor the only way to tell a sparse extent from raw data is its first bytes: raw data that
            # starts with a sparse magic is legitimately taken for a sparse extent there
            plain_list_ok = all((d / f).stat().st_size == c * SECTOR or k not in ("FLAT", "VMFS") for f, c, k in zip(files, caps, kinds))
            plain_list_ok = plain_list_ok and not any(getattr(p_.layers[0], "looks_sparse", False) for p_ in parts)
            o = call(VMDK, fhs if plain_list_ok else dpath)
        try:
            cnt["descriptors_with_a_zero_sector_extent"] = int(zero_extents > 0)
            if not o.ok and zero_extents:
                cnt["zero_sector_extent_refusals"] = 1
                res["nontrivial"] = True
                res["sig"] = ("zero-extent-refused", case["i"])
                res["sample"] = {"descriptor_lines": lines[:4], "outcome": o.brief()}
                return res
            if not o.ok:
                res["viol"].append({"what": f"open failed on a well-formed descriptor: {o.brief()}", "mech": MECH,
                                    "detail": {"tb": o.tb, "descriptor": text[:600]}})
                return res
            v = o.value
            if len(v.disks) != n + zero_extents and not zero_extents:
                res["viol"].append({"what": "an extent named in the descriptor is missing from the assembled disk", "mech": MECH,
                                    "detail": {"extents_opened": len(v.disks), "extents_named": n, "lines": lines}})
            exp_size = sum(caps) * SECTOR
            if v.size != exp_size:
                res["viol"].append({"what": "size is not the sum of the extents", "mech": MECH, "detail": {"got": v.size, "exp": exp_size, "lines": lines}})
            if path_mode != "list" and v.descriptor is not None and v.descriptor.sectors != sum(caps):
                res["viol"].append({"what": "descriptor sector accounting", "mech": MECH, "detail": {"got": v.descriptor.sectors, "exp": sum(caps)}})
            if not res["viol"]:
                bounds = []
                acc = 0
                for c in caps:
                    acc += c * SECTOR
                    bounds.append(acc)
                if len(bounds) > 60:
                    bounds = sorted(rng.sample(bounds[:-1], 59)) + bounds[-1:]
                reqs, _ = gen_requests(rng, model.size, [8192], n_random=30 if quick else 100, max_len=1 << 20, pair_cap=120, extra=bounds)
                for b in bounds:
                    for _ in range(3):
                        a = max(0, b - rng.randrange(1, 20000))
                        reqs.append((a, rng.randrange(b - a + 1, b - a + 30000)))
                reqs.append((max(0, model.size - 5000), 99999))
                fault_retry_reads(v, model, reqs, rng, res, MECH, n=4)
                continuation_reads(v, model, reqs, rng, res, MECH, n=6)
                compare_reads(v, model, reqs, res, MECH)
                cnt["boundary_straddling_requests"] = sum(1 for o_, n_ in reqs for b in bounds[:-1] if o_ < b < o_ + n_)
                total = sum(caps)
                for _ in range(8):
                    if res["viol"]:
                        break
                    b = rng.choice(bounds) // SECTOR
                    s0 = min(max(0, b - rng.randrange(0, 30)), total - 1)
                    c = rng.randrange(1, min(total - s0, 80) + 1)
                    o2 = call(v.read_sectors, s0, c)
                    exp = model.expected(s0 * SECTOR, c * SECTOR)
                    cnt["sector_reads_compared"] = cnt.get("sector_reads_compared", 0) + 1
                    if not o2.ok:
                        res["viol"].append({"what": f"read_sectors raised: {o2.brief()}", "mech": MECH, "detail": {"sector": s0, "count": c, "tb": o2.tb}})
                    elif o2.value != exp:
                        res["viol"].append({"what": "read_sectors content mismatch", "mech": MECH, "detail": mismatch_detail(s0 * SECTOR, c * SECTOR, o2.value, exp)})
        finally:
            for h in handles:
                h.close()
        cnt["vmdk_cases"] = 1
        cnt["descriptor_files_over_64KiB"] = int(len(text) > 65536)
        cnt["sesparse_extents"] = kinds.count("SESPARSE")
        cnt["cowd_extents"] = kinds.count("VMFSSPARSE")
        cnt["special_name_cases"] = int(base != "disk")
        cnt["tail_not_buffer_multiple"] = int(model.size % 8192 != 0)
        res["sets"]["extent_kind_sequences"] = ["+".join(kinds)]
        res["sets"]["access_paths"] = [path_mode]
        res["sets"]["base_names"] = [base]
        res["nontrivial"] = n >= 2
        res["sig"] = (tuple(kinds), tuple(caps), path_mode, base)
        res["sample"] = {"descriptor_lines": lines[:4], "access": path_mode, "size": model.size}
        return res

    # Parallels multi-storage
    from dissect.hypervisor.disk.hdd import HDD

    hd = d / "m.hdd"
    g = whds.DEFAULT_TOP
    nst = rng.randrange(2, 7)
    storages, files, parts = [], {}, []
    start = 0
    kinds = []
    same_names = rng.random() < 0.3
    oversized = absolute = 0
    big_at = rng.randrange(0, 2) if case.get("big") else -1
    for j in range(nst):
        if j == big_at:
            ms, ncl = 65536, 65536 + rng.choice([1, 7, 300])
            bst = ["U"] * ncl
            bst[rng.choice([0, 65535, ncl - 1])] = "A"
            sf, layer, meta = whds.build_hds(rng, version=2, m_sectors=ms, nclusters=ncl, states=bst, placement="seq", tag=rng.getrandbits(48))
            typ = "Compressed"
            nsec = meta["size"] // SECTOR
            parts.append(Model(meta["size"], [layer]))
        elif rng.random() < 0.7:
            ms = rng.choice([1, 8, 16, 64])
            ncl = rng.randrange(1, 30)
            sf, layer, meta = whds.build_hds(rng, version=rng.choice([1, 2]), m_sectors=ms, nclusters=ncl, placement="shuffle", tag=rng.getrandbits(48))
            typ = "Compressed"
            nsec = meta["size"] // SECTOR
            parts.append(Model(meta["size"], [layer]))
        else:
            nsec = rng.randrange(1, 300)
            sf, layer, meta = w.build_flat(rng, nsectors=nsec, tag=rng.getrandbits(48))
            typ = "Plain"
            parts.append(Model(meta["size"], [layer]))
        if nsec > 2 and rng.random() < 0.3:
            # the image is larger than the range its storage occupies (preallocated tail, capacity rounded up to whole
            # clusters): the storage's sector range decides, the surplus is never visible
            nsec -= rng.randrange(1, min(nsec, 40))
            parts[-1] = Model(nsec * SECTOR, [layer])
            oversized += 1
        fn = f"m.hdd.{j}.{g}.hds"
        if same_names:
            # images of the same base name in per-storage sub-directories of the bundle
            fn = f"part{j}/data.hds"
        if j != big_at and not same_names and rng.random() < 0.2:
            # the storage's image is kept outside the bundle and named by an absolute path that exists; a stale file of
            # the same name inside the bundle is not the image
            pool = d / f"image pool {j}"
            pool.mkdir()
            sf.write_to(pool / fn)
            if typ == "Plain":
                sf, _, _ = w.build_flat(rng, nsectors=meta["size"] // SECTOR, tag=rng.getrandbits(48))
            else:
                sf, _, _ = whds.build_hds(rng, version=2, m_sectors=ms, nclusters=ncl, placement="shuffle", tag=rng.getrandbits(48))
            absolute += 1
            files[fn] = sf
            kinds.append(typ)
            storages.append({"start": start, "end": start + nsec, "images": [{"guid": g, "type": typ, "file": str(pool / fn)}]})
            start += nsec
            continue
        files[fn] = sf
        kinds.append(typ)
        storages.append({"start": start, "end": start + nsec, "images": [{"guid": g, "type": typ, "file": fn}]})
        start += nsec
    order = list(storages)
    rng.shuffle(order)
    whds.write_hdd_dir(str(hd), order, [(g, whds.NULL_GUID)], files=files)
    model = ConcatModel(parts)
    # the bundle directory, or (the documented alternative) a file inside it
    entry = rng.choice([hd, hd, hd / "DiskDescriptor.xml", str(hd / "DiskDescriptor.xml")])
    res["sets"]["hdd_entry_points"] = ["directory" if entry is hd else "file-inside-bundle"]
    o = call(lambda: HDD(Path(entry)).open())
    if not o.ok:
        res["viol"].append({"what": f"open failed on a well-formed .hdd: {o.brief()}", "mech": MECH, "detail": {"tb": o.tb}})
        return res
    st = o.value
    if st.size != model.size:
        res["viol"].append({"what": "size is not the sum of the storages", "mech": MECH, "detail": {"got": st.size, "exp": model.size}})
    bounds = [s["end"] * SECTOR for s in storages]
    reqs, _ = gen_requests(rng, model.size, [8192], n_random=30 if quick else 100, max_len=1 << 20, pair_cap=120, extra=bounds)
    for b in bounds:
        for _ in range(3):
            a = max(0, b - rng.randrange(1, 20000))
            reqs.append((a, rng.randrange(b - a + 1, b - a + 30000)))
    fault_retry_reads(st, model, reqs, rng, res, MECH, n=4)
    continuation_reads(st, model, reqs, rng, res, MECH, n=6)
    compare_reads(st, model, reqs, res, MECH)
    cnt["boundary_straddling_requests"] = sum(1 for o_, n_ in reqs for b in bounds[:-1] if o_ < b < o_ + n_)
    cnt["hdd_cases"] = 1
    cnt["hdd_same_base_name_in_subdirs"] = int(same_names)
    cnt["hdd_images_larger_than_their_storage"] = oversized
    cnt["hdd_images_at_existing_absolute_paths"] = absolute
    cnt["hdd_storages_of_2TiB_or_more"] = int(big_at >= 0)
    res["sets"]["storage_kind_sequences"] = ["+".join(kinds)]
    res["nontrivial"] = True
    res["sig"] = ("hdd", tuple(kinds), tuple(s["end"] for s in storages))
    res["sample"] = {"storages": [(s["start"], s["end"]) for s in order], "types": kinds}
    return res
