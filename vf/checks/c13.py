"""C13 - Lazy access: I/O proportional to the request, correct at multi-terabyte scale."""
from __future__ import annotations

import os
import struct
from pathlib import Path

from vf.core import D, SECTOR, T, Z, BudgetExceeded, Layer, Model, PatternGen, ProxyFile, SparseFile, rng_for
from vf.diskcheck import mismatch_detail
from vf.monitors import call
from vf.writers import hds as whds
from vf.writers import qcow2 as wq
from vf.writers import vdi as wvdi
from vf.writers import vhd as wvhd
from vf.writers import vhdx as wvhdx
from vf.writers import vmdk as wvmdk

ID = "C13"
LEVEL = "exploration"
CONTRACTS = True  # icontract postconditions on AlignedStream.read/peek/seek fire during this workload too
STEP_BUDGET = 120_000_000
HANDLE_CLOSE_CHECK = True
ANCHOR_FILES = [f"dissect/hypervisor/disk/{m}.py" for m in ("qcow2", "vmdk", "vhdx", "vhd", "vdi", "hdd")]
RULE = (
    "Per format, virtual disks at the format's scale (QCOW2 64 TiB with 64 KiB and 2 MiB clusters, VHDX 64 TiB, VMDK "
    "hosted 62 TB-class / SE-sparse / flat multi-TiB, VHD 2040 GiB fixed and dynamic, VDI and HDS > 2 TiB) on a sparse "
    "virtual backing file that counts bytes read, with allocated data orders of magnitude larger than the mapping "
    "metadata (lazy pattern extents), tables and data placed beyond 2^32 bytes and beyond 2^32 sectors (L2 tables at "
    "2^45, SE-sparse grain indices >= 2^31, hosted grains near sector 2^32-1, VHDX blocks beyond 2^27 MiB, VHD blocks "
    "near sector 2^32-1). Deciding monitor: bytes returned by the backing object during open + K reads must stay below "
    "2.2 x metadata_bytes + sum over requests of 8 x (len + 2 x buffer) (+ two allocation units per request only where "
    "the format stores compressed units) + 128 KiB - the proxy aborts the run at the budget; a second pass of small "
    "requests inside already-mapped units must each cost <= 8 x (len + 2 x buffer) + 4 KiB; and every read is compared "
    "with the content model at the extreme offsets. Non-trivial: virtual size >= 1 TiB or data beyond 2^32 bytes; "
    "distinct = (format, geometry, placement)."
)
ASSUMPTIONS = [
    "the budget deliberately permits eager loading of all mapping metadata, because the statement does",
    "writers/content models as in C01..C06",
    "held means: held on the executions listed, not verified for all sizes and placements",
]
MINIMA = {"quick": {"reads_compared": 500, "second_pass_requests": 200, "cases_beyond_2^32_bytes": 15, "cases_beyond_2^32_sectors": 5, "multi_tib_cases": 15},
          "thorough": {"reads_compared": 15000}}
MECH = "lazy-io"
BUF = 8192
TIB = 1 << 40
FORMATS = ["qcow2-64k", "qcow2-2m", "vhdx", "vhdx-4k", "vmdk-hosted", "vmdk-sesparse", "vmdk-flat", "vhd-fixed", "vhd-dyn", "vdi", "hds-v2", "hds-v1", "qcow2-comp", "vmdk-stream", "qcow2-snap", "vhdx-diff", "qcow2-16k", "qcow2-32k"]


TMPDIRS: list = []  # directories holding on-disk parents; removed at the end of each case


def worker_fini(ctx):
    import shutil

    while TMPDIRS:
        shutil.rmtree(TMPDIRS.pop(), ignore_errors=True)


def plan(tier: str, seed: int) -> list[dict]:
    cases = []
    reps = 2 if tier == "quick" else 60
    for f in FORMATS:
        for r in range(reps):
            cases.append({"fmt": f, "r": r, "weight": 3})
    for r in range(6 if tier == "quick" else 60):
        # hosted sparse extents whose grain directory itself lies beyond 2^32 sectors
        cases.append({"fmt": f"vmdk-hosted-gd{r % 6}", "r": r, "weight": 3})
    for r in range(1 if tier == "quick" else 6):
        cases.append({"fmt": "qcow2-many-open", "r": r, "weight": 6})
    for r in range(2 if tier == "quick" else 20):
        cases.append({"fmt": "vmdk-desc-huge", "r": r, "weight": 3})
    return cases


def _dense_vdi(rng, nblocks: int, bs: int, tag: int):
    """> 2 TiB VDI: identity map for all but the last 8 blocks (permuted / holes), one lazy data extent."""
    spb = bs // SECTOR
    size = nblocks * bs - rng.choice([0, rng.randrange(0, bs)])
    layer = Layer(size, spb, tag, 0, default=D)
    tailn = 8
    head = nblocks - tailn
    bmap = list(range(head))
    perm = list(range(head, nblocks))
    rng.shuffle(perm)
    special = []
    for i in range(head, nblocks):
        r = rng.random()
        if r < 0.2:
            bmap.append(-1)
            layer.units[i] = T
        elif r < 0.35:
            bmap.append(-2)
            layer.units[i] = Z
        else:
            p = perm.pop()
            bmap.append(p)
            special.append((i, p))
    blocks_offset = 512
    data_offset = -(-(blocks_offset + 4 * nblocks) // 4096) * 4096
    hdr = b"<<< Oracle VM VirtualBox Disk Image >>>\n".ljust(64, b"\0")
    hdr += struct.pack("<IIIII", 0xBEDA107F, 0x00010001, 0x190, 1, 0) + b"\0" * 256
    hdr += struct.pack("<IIIIIIIQIIII", blocks_offset, data_offset, 0, 0, 0, 512, 0, size, bs, 0, nblocks, nblocks)
    hdr += bytes(rng.randrange(256) for _ in range(16)) + b"\0" * 48
    sf = SparseFile()
    sf.put(0, hdr)
    sf.put(blocks_offset, struct.pack(f"<{nblocks}i", *bmap))
    sf.put(data_offset, PatternGen(layer, 0, head * spb))
    for i, p in special:
        sf.put(data_offset + p * bs, PatternGen(layer, i * spb, spb))
    sf.size = data_offset + nblocks * bs
    return sf, layer, {"size": size, "metadata_bytes": 512 + 4 * nblocks, "unit": bs, "hot": [0, (head - 1) * bs, head * bs, (nblocks - 1) * bs, (1 << 32), (1 << 41)],
                       "dense": (bs, 40 * bs)}


def _dense_hds(rng, version: int, ncl: int, ms: int, tag: int):
    cs = ms * SECTOR
    size = ncl * cs
    layer = Layer(size, ms, tag, 0, default=D)
    first = -(-(64 + 4 * ncl) // cs)  # first data cluster index
    tailn = 8
    head = ncl - tailn
    mult = 1 if version == 2 else ms
    bat = [(first + i) * mult for i in range(head)]
    perm = list(range(head, ncl))
    rng.shuffle(perm)
    special = []
    for i in range(head, ncl):
        if rng.random() < 0.3:
            bat.append(0)
            layer.units[i] = T
        else:
            p = perm.pop()
            bat.append((first + p) * mult)
            special.append((i, p))
    sig = whds.SIG_V1 if version == 1 else whds.SIG_V2
    hdr = sig + struct.pack("<IIIII", 2, 16, 1024, ms, ncl)
    hdr += struct.pack("<II", size // SECTOR, 0) if version == 1 else struct.pack("<Q", size // SECTOR)
    # an image that was not closed cleanly carries the in-use mark; it is read like any other
    hdr += struct.pack("<IIIQ", rng.choice([0, 0x746F6E59, 0x746F6E59]), first * ms, 0, 0)
    sf = SparseFile()
    sf.put(0, hdr + struct.pack(f"<{ncl}I", *bat))
    sf.put(first * cs, PatternGen(layer, 0, head * ms))
    for i, p in special:
        sf.put((first + p) * cs, PatternGen(layer, i * ms, ms))
    sf.size = (first + ncl) * cs
    return sf, layer, {"size": size, "metadata_bytes": 64 + 4 * ncl, "unit": cs, "hot": [0, (head - 1) * cs, head * cs, size - cs, 1 << 32, min(1 << 41, size - cs)],
                       "dense": (cs, 40 * cs)}


def build(fmt: str, rng):
    """-> (opener(handle) -> stream, backing SparseFile(s), model, meta)"""
    tag = rng.getrandbits(48)
    compressed_unit = 0
    if fmt == "vhdx-diff":
        # a multi-terabyte differencing disk: partially present blocks (sector bitmaps) far beyond the first chunk, the parent
        # located by path next to the (in-memory, byte-counted) child
        import tempfile

        from dissect.hypervisor.disk.vhdx import VHDX
        from vf import chains

        bs, ss = 8 << 20, 512
        spb = bs // ss
        ratio = (2**23 * ss) // bs
        n = (4 * TIB) // bs + rng.randrange(1, 9)
        hot_b = sorted({1, ratio + 1, 3 * ratio + 5, n - 2, (1 << 41) // bs + 3, rng.randrange(ratio, n)})
        pst, cst = [0] * n, [0] * n
        partial = {}
        for b_ in hot_b:
            pst[b_] = 6
            cst[b_] = rng.choice([7, 7, 7, 0, 6])
            if cst[b_] == 7:
                partial[b_] = chains.bitmap_flags(rng, spb)
        if 7 not in cst:
            cst[hot_b[2]] = 7
            partial[hot_b[2]] = chains.bitmap_flags(rng, spb)
        d = Path(tempfile.mkdtemp(prefix="vf-c13-", dir=os.environ.get("VF_CASE_TMP")))
        TMPDIRS.append(d)
        psf, player, pmeta = wvhdx.build(rng, block_size=bs, sector_size=ss, nblocks=n, states=pst, placement="shuffle", tag=tag, checksums=False,
                                         far_mb=rng.choice([1 << 13, 1 << 20]))
        psf.write_to(d / "base.vhdx")
        loc = wvhdx.parent_locator([("parent_linkage", "{83ed0ec1-24c8-49a6-a959-5e4bd1288015}"), ("relative_path", ".\\base.vhdx")])
        sf, layer, meta = wvhdx.build(rng, block_size=bs, sector_size=ss, nblocks=n, states=cst, placement="shuffle", tag=tag + 1, checksums=False,
                                      has_parent=True, locator=loc, partial=partial, far_mb=rng.choice([1 << 13, 1 << 21]), stale_offsets=False)
        info = {"size": meta["size"], "metadata_bytes": meta["metadata_bytes"] + (1 << 20), "unit": bs, "hot": [b_ * bs + rng.choice([0, 512 * 77, bs - 4096]) for b_ in hot_b],
                "max_off": sf.end, "name": str(d / "child.avhdx")}
        return (lambda fh: VHDX(fh)), sf, Model(meta["size"], [layer, player]), info
    if fmt in ("qcow2-16k", "qcow2-32k"):
        # small clusters at multi-terabyte sizes: L1 tables of several MiB (well within the format's limits)
        from dissect.hypervisor.disk.qcow2 import QCow2

        cb = 14 if fmt == "qcow2-16k" else 15
        cs = 1 << cb
        size = (9 if cb == 14 else 40) * TIB + SECTOR * rng.randrange(0, cs // SECTOR)
        ncl = -(-size // cs)
        hot_cl = {0, 1, ncl - 1, (1 << 32) // cs, (1 << 41) // cs, ncl // 2} | {rng.randrange(ncl) for _ in range(4)}
        kinds = {g: rng.choice("NNZ") for g in hot_cl}
        kinds.update({g: "N" for g in range(2, 40)})
        view = wq.make_view(rng, size=size, cluster_bits=cb, kinds=kinds, extl2=False, tag=tag)
        img, _, meta = wq.build(rng, cluster_bits=cb, size=size, views=[view], version=3, placement="shuffle", far_base=rng.choice([1 << 32, 1 << 40]), far_frac=0.7, tuned_frac=0.0)
        info = {"size": size, "metadata_bytes": meta["metadata_bytes"], "unit": cs, "hot": [g * cs for g in sorted(hot_cl)], "max_off": meta["max_host_off"],
                "dense": (2 * cs, 38 * cs)}
        return (lambda fh: QCow2(fh)), img, Model(size, [view.layer]), info
    if fmt == "qcow2-snap":
        # internal snapshots of a 20 TiB image whose snapshot table, L1/L2 tables and clusters all sit beyond 4 GiB
        # (up to tens of TiB) in the file; one of the later snapshots is the stream under test
        from dissect.hypervisor.disk.qcow2 import QCow2

        cb, cs = 16, 1 << 16
        size = 20 * TIB
        ncl = size // cs
        views = []
        nsn = rng.choice([2, 3, 4])
        hot_cl = {0, 1, ncl - 1, (1 << 32) // cs, (1 << 41) // cs, ncl // 2} | {rng.randrange(ncl) for _ in range(4)}
        for v in range(nsn + 1):
            kinds = {g: rng.choice("NNZ") for g in hot_cl if rng.random() < 0.8}
            kinds.update({g: "N" for g in range(2, 40)})
            views.append(wq.make_view(rng, size=size, cluster_bits=cb, kinds=kinds, extl2=False, tag=tag + v))
        metas = [{"id": str(i + 1).encode(), "name": (f"snapshot {i}" * rng.randrange(1, 4)).encode(), "extra_size": rng.choice([16, 24, 40])} for i in range(nsn)]
        img, _, meta = wq.build(rng, cluster_bits=cb, size=size, views=views, version=3, placement="shuffle", snapshots_meta=metas,
                                far_base=rng.choice([1 << 32, 1 << 40, 1 << 44]), far_frac=1.0, tuned_frac=0.0)
        pick = rng.randrange(max(1, nsn - 1), nsn + 1)  # one of the last two snapshots
        l2s_pick = len({g // (cs // 8) for g in views[pick].kinds})
        info = {"size": size, "metadata_bytes": meta["metadata_bytes"] + 4096 + (ncl // (cs // 8)) * 8 + l2s_pick * cs, "unit": cs,
                "hot": [g * cs for g in sorted(hot_cl)], "max_off": meta["max_host_off"], "snapshot_table_offset": meta["snapshots_offset"]}
        return (lambda fh: QCow2(fh).snapshots[pick - 1].open()), img, Model(size, [views[pick].layer]), info
    if fmt.startswith("qcow2"):
        from dissect.hypervisor.disk.qcow2 import QCow2

        cb = 21 if fmt == "qcow2-2m" else 16
        cs = 1 << cb
        size = 64 * TIB - rng.choice([0, SECTOR * rng.randrange(0, cs // SECTOR)])
        ncl = -(-size // cs)
        l2e = cs // 8
        kinds = {}
        run = 4096 if cb == 16 else 64  # a long allocated run: data >> metadata
        for g in range(run):
            kinds[g] = "N"
        hot_cl = {0, run - 1, run, ncl - 1, ncl - 2, (1 << 32) // cs, (1 << 41) // cs, l2e, l2e - 1}
        if cb == 16:
            hot_cl |= {ncl // 2} | {rng.randrange(ncl) for _ in range(4)}
        else:
            # 2 MiB clusters: an L2 table is 2 MiB, keep the number of distinct tables small and add many
            # small requests inside already-mapped tables so that per-request cost dominates
            hot_cl |= {rng.randrange(0, 2 * l2e) for _ in range(10)} | {ncl - 1 - rng.randrange(0, l2e // 2) for _ in range(6)}
        for g in hot_cl:
            if 0 <= g < ncl and g not in kinds:
                kinds[g] = rng.choice("NNZ" if fmt != "qcow2-comp" else "CCN")
        if fmt == "qcow2-comp":
            for g in range(8, 40):
                kinds[g] = "C"
            compressed_unit = cs
        view = wq.make_view(rng, size=size, cluster_bits=cb, kinds=kinds, extl2=False, tag=tag)
        img, _, meta = wq.build(rng, cluster_bits=cb, size=size, views=[view], version=3, placement="shuffle",
                                far_base=rng.choice([1 << 32, 1 << 40, 1 << 45]), far_frac=0.7, tuned_frac=0.0)
        info = {"size": size, "metadata_bytes": meta["metadata_bytes"], "unit": cs, "hot": [g * cs for g in sorted(hot_cl) if 0 <= g < ncl],
                "max_off": meta["max_host_off"], "compressed_unit": compressed_unit, "dense": (40 * cs, (run - 40) * cs) if cb == 16 else (2 * cs, 40 * cs)}
        return (lambda fh: QCow2(fh)), img, Model(size, [view.layer]), info
    if fmt in ("vhdx", "vhdx-4k"):
        from dissect.hypervisor.disk.vhdx import VHDX

        ss = 4096 if fmt == "vhdx-4k" else 512
        bmb = rng.choice([32, 256])
        bs = bmb << 20
        n = (64 * TIB) // bs
        ratio = (2**23 * ss) // bs
        states = [0] * n
        hot_b = {0, 1, n - 1, n - 2, ratio - 1, ratio, ratio + 1, (1 << 32) // bs, (1 << 41) // bs + 1, n // 2} | {rng.randrange(n) for _ in range(4)}
        for b in hot_b:
            states[b] = rng.choice([6, 6, 6, 2])
        for b in range(2, 40):
            states[b] = 6  # a long allocated run
        tail = rng.choice([0, rng.randrange(0, bs // ss)])
        sf, layer, meta = wvhdx.build(rng, block_size=bs, sector_size=ss, nblocks=n, tail_cut_sectors=tail, states=states, placement="shuffle",
                                      tag=tag, far_mb=rng.choice([1 << 13, 1 << 22, 1 << 27]), checksums=False)
        info = {"size": meta["size"], "metadata_bytes": meta["metadata_bytes"], "unit": bs, "hot": [b * bs for b in sorted(hot_b)],
                "max_off": sf.end, "sector": ss}
        return (lambda fh: VHDX(fh)), sf, Model(meta["size"], [layer]), info
    if fmt.startswith("vmdk"):
        from dissect.hypervisor.disk.vmdk import VMDK

        dense = None
        if fmt.startswith("vmdk-hosted"):
            grain = rng.choice([2048, 128])
            ngte = 512
            cap = (1 << 37) - rng.randrange(0, grain) if grain == 2048 else (1 << 33) + rng.randrange(1, 1 << 20)
            ngr = -(-cap // grain)
            hot_g = {0, 1, ngr - 1, ngr - 2, (1 << 32) // grain, (1 << 32) // grain - 1, ngr // 2} | {rng.randrange(ngr) for _ in range(5)}
            st = {g: rng.choice("AAZ") for g in hot_g}
            for g in range(2, 200):
                st[g] = "A"
            # the 64-bit directory offset itself beyond 2^32 sectors in half of the cases, also at sectors whose low half is all
            # ones (only the full 64-bit all-ones value means "directory named by the footer")
            gd_at = 0
            if fmt.startswith("vmdk-hosted-gd"):
                gd_at = [0xFFFFFFFF, 0x1FFFFFFFF, 0x100000000, 0x2FFFFFFFF0, 0xFFFFFFFE, 0x7FFFFFFFFF][int(fmt[14:]) % 6]
            sf, layer, meta = wvmdk.build_hosted(rng, capacity=cap, grain=grain, ngte=ngte, states=st, placement="shuffle", tag=tag,
                                                 far_sector=0xFFFFFFFF - 400 * grain, gd_at=gd_at)
            gd_note = hex(meta["gd_sector"])
            hot = [g * grain * SECTOR for g in sorted(hot_g)]
            dense = (2 * grain * SECTOR, 198 * grain * SECTOR)
        elif fmt == "vmdk-sesparse":
            grain, gts = 8, 64
            cap = (1 << 33) + rng.randrange(1, 1 << 20)
            ngr = -(-cap // grain)
            hot_g = {0, 1, ngr - 1, (1 << 32) // grain, ngr // 2} | {rng.randrange(ngr) for _ in range(5)}
            st = {g: rng.choice("AAZF") for g in hot_g}
            for g in range(2, 300):
                st[g] = "A"
            sf, layer, meta = wvmdk.build_sesparse(rng, capacity=cap, grain=grain, gt_sectors=gts, states=st, placement="shuffle", tag=tag, big_index=True, huge_index=True)
            # push some grain indices beyond 2^31 (file offsets beyond 2^44)
            hot = [g * grain * SECTOR for g in sorted(hot_g)]
            dense = (2 * grain * SECTOR, 298 * grain * SECTOR)
        elif fmt == "vmdk-stream":
            grain, ngte = 128, 512
            cap = 128 * 300 + 17
            sf, layer, meta = wvmdk.build_stream_optimized(rng, capacity=cap, grain=grain, ngte=ngte, tag=tag, incompressible_frac=0.5, tuned_frac=0.0)
            hot = [0, cap * SECTOR - 700, 128 * 150 * SECTOR]
            compressed_unit = grain * SECTOR
        else:
            cap = (1 << 33) + rng.randrange(1, 1 << 24)
            sf, layer, meta = wvmdk.build_flat(rng, nsectors=cap, tag=tag)
            hot = [0, 1 << 32, 1 << 41, cap * SECTOR - 5000]
        info = {"size": meta["size"], "metadata_bytes": meta["metadata_bytes"], "unit": grain * SECTOR if fmt != "vmdk-flat" else SECTOR,
                "hot": hot, "max_off": sf.end, "compressed_unit": compressed_unit, "dense": dense}
        if fmt.startswith("vmdk-hosted"):
            info["gd_sector"] = gd_note
        return (lambda fh: VMDK(fh)), sf, Model(meta["size"], [layer]), info
    if fmt == "vhd-fixed":
        from dissect.hypervisor.disk.vhd import VHD

        nsec = (2040 << 30) // SECTOR - rng.randrange(0, 1000)
        sf, layer, meta = wvhd.build_fixed(rng, nsectors=nsec, legacy=rng.random() < 0.5, tag=tag, creator=rng.choice([None, b"vpc ", b"vpc ", b"win "]))
        info = {"size": meta["size"], "metadata_bytes": 1024, "unit": SECTOR, "hot": [0, 1 << 32, 1 << 40, meta["size"] - 3000], "max_off": sf.end}
        return (lambda fh: VHD(fh)), sf, Model(meta["size"], [layer]), info
    if fmt == "vhd-dyn":
        from dissect.hypervisor.disk.vhd import VHD

        bs = 2 << 20
        n = (2040 << 30) // bs
        hot_b = {0, 1, n - 1, n - 2, (1 << 32) // bs, n // 2} | {rng.randrange(n) for _ in range(5)}
        states = ["U"] * n
        for b in hot_b:
            states[b] = "A"
        for b in range(2, 60):
            states[b] = "A"
        sf, layer, meta = wvhd.build_dynamic(rng, block_size=bs, nblocks=n, states=states, placement="shuffle", tag=tag,
                                             tail_cut_sectors=rng.choice([0, rng.randrange(0, 4096)]), far_sector=0xFFFFFFFF - 70 * 4200,
                                             # the dynamic header (and with it the table) may itself sit beyond 4 GiB
                                             header_off=rng.choice([512, 6 << 30, (1 << 40) + 512]), creator=rng.choice([None, b"vpc ", b"vpc ", b"win "]))
        info = {"size": meta["size"], "metadata_bytes": meta["metadata_bytes"], "unit": bs, "hot": [b * bs for b in sorted(hot_b)], "max_off": sf.end,
                "dense": (2 * bs, 58 * bs)}
        return (lambda fh: VHD(fh)), sf, Model(meta["size"], [layer]), info
    if fmt == "vdi":
        from dissect.hypervisor.disk.vdi import VDI

        bs = 1 << 20
        n = (2 * TIB) // bs + rng.randrange(10, 5000)
        sf, layer, info = _dense_vdi(rng, n, bs, tag)
        info["max_off"] = sf.end
        return (lambda fh: VDI(fh)), sf, Model(info["size"], [layer]), info
    if fmt in ("hds-v1", "hds-v2"):
        from dissect.hypervisor.disk.hdd import HDS

        ver = int(fmt[-1])
        ms = 2048
        # v1 stores 32-bit sector offsets: the whole file must stay below 2^32 sectors
        ncl = (2 * TIB) // (ms * SECTOR) + (rng.randrange(10, 5000) if ver == 2 else -rng.randrange(200, 400))
        sf, layer, info = _dense_hds(rng, ver, ncl, ms, tag)
        info["max_off"] = sf.end
        return (lambda fh: HDS(fh)), sf, Model(info["size"], [layer]), info
    raise ValueError(fmt)


def _many_open(rng, ctx, res, buf):
    """A hundred and more large images open at the same time, read in turn: what one image has learned about its own tables stays
    with it however many others are in use."""
    from dissect.hypervisor.disk.qcow2 import QCow2

    cnt = res["cnt"]
    n_img = rng.choice([140, 160, 200])
    cb, cs = 16, 1 << 16
    size = 16 * TIB
    imgs = []
    for j in range(n_img):
        g = rng.randrange(8192, size // cs)
        view = wq.make_view(rng, size=size, cluster_bits=cb, kinds={g: "N"}, extl2=False, tag=rng.getrandbits(48))
        img, _, meta = wq.build(rng, cluster_bits=cb, size=size, views=[view], version=3, placement="seq", far_base=rng.choice([1 << 32, 1 << 42]), far_frac=1.0, tuned_frac=0.0)
        fh = ProxyFile(img.open())
        o = call(QCow2, fh)
        if not o.ok:
            res["viol"].append({"what": f"open failed on conformant image: {o.brief()}", "mech": MECH, "detail": {"tb": o.tb}})
            return res
        imgs.append((o.value, fh, Model(size, [view.layer]), g * cs))
    worst = 0
    for rnd in range(4):
        for q, fh, model, hot in imgs:
            off = hot + rng.randrange(0, cs - 4096)
            before = fh.bytes_read
            o2 = call(lambda: (q.seek(off), q.read(4096))[1])
            cost = fh.bytes_read - before
            cnt["reads_compared"] = cnt.get("reads_compared", 0) + 1
            if not o2.ok or o2.value != model.expected(off, 4096):
                res["viol"].append({"what": "content mismatch at an extreme offset", "mech": MECH, "detail": {"offset": off, "outcome": o2.brief()}})
                return res
            if rnd >= 1:
                worst = max(worst, cost)
                allowed = 4096 + 2 * buf + 4096
                cnt["second_pass_requests"] = cnt.get("second_pass_requests", 0) + 1
                if cost > allowed:
                    res["viol"].append({"what": "file I/O of a small request inside an already mapped unit is not proportional to the request",
                                        "mech": "lazy-io.per-request", "detail": {"images_open": n_img, "round": rnd, "bytes_read": cost, "allowed": allowed}})
                    return res
    cnt["images_open_at_the_same_time"] = n_img
    cnt["multi_tib_cases"] = 1
    res["nontrivial"] = True
    res["sig"] = ("many-open", n_img)
    res["sample"] = {"format": "qcow2, many images open", "images": n_img, "worst_warm_read_cost": worst}
    return res


def _desc_huge(rng, ctx, res):
    """A flat extent of more than 10^10 sectors named by a text descriptor, backed by a sparse file on disk."""
    import os
    import tempfile

    from dissect.hypervisor.disk.vmdk import VMDK

    cnt = res["cnt"]
    d = tempfile.mkdtemp(prefix="vf-c13-")
    TMPDIRS.append(d)
    nsec = rng.choice([10**10, 10**10 + 7, 25769803776, 3 * 10**10]) + rng.randrange(0, 1000)
    small = rng.randrange(1, 5000)
    unit = 2048  # sectors
    layer = Layer(nsec * SECTOR, unit, rng.getrandbits(48), 0, default=T)
    hot_units = {0, nsec // unit - 1, (nsec // unit) // 2, (10**10 - 1) // unit} | {rng.randrange(nsec // unit) for _ in range(3)}
    try:
        with open(os.path.join(d, "huge-flat.vmdk"), "wb") as f:
            f.truncate(nsec * SECTOR)
    except OSError as e:
        # the file system under the temporary directory cannot hold a sparse file of this size: nothing to observe here
        cnt["huge_sparse_file_not_supported_here"] = 1
        res["nontrivial"] = False
        res["sig"] = ("desc-huge-skipped", nsec)
        res["sample"] = {"skipped": f"{type(e).__name__}: {e}"}
        return res
    with open(os.path.join(d, "huge-flat.vmdk"), "r+b") as f:
        for u in sorted(hot_units):
            layer.units[u] = D
            f.seek(u * unit * SECTOR)
            f.write(layer.phys_bytes(u * unit, unit))
    sf2, l2, _ = wvmdk.build_flat(rng, nsectors=small, tag=rng.getrandbits(48))
    sf2.write_to(os.path.join(d, "small-flat.vmdk"))
    order = rng.choice(["huge-first", "small-first"])
    lines = [f'RW {nsec} VMFS "huge-flat.vmdk" 0', f'RW {small} VMFS "small-flat.vmdk" 0']
    parts = [Model(nsec * SECTOR, [layer]), Model(small * SECTOR, [l2])]
    if order == "small-first":
        lines.reverse()
        parts.reverse()
    with open(os.path.join(d, "disk.vmdk"), "w") as f:
        f.write(wvmdk.descriptor_text(lines, create_type="vmfs"))
    from vf.core import ConcatModel

    model = ConcatModel(parts)
    o = call(VMDK, os.path.join(d, "disk.vmdk"))
    if not o.ok:
        res["viol"].append({"what": f"open failed on conformant image: {o.brief()}", "mech": MECH, "detail": {"tb": o.tb, "lines": lines}})
        return res
    v = o.value
    if v.size != model.size:
        res["viol"].append({"what": "size mismatch", "mech": MECH, "detail": {"got": v.size, "exp": model.size, "lines": lines}})
        return res
    base = 0 if order == "huge-first" else small * SECTOR
    for u in sorted(hot_units):
        off = base + u * unit * SECTOR + rng.randrange(0, unit * SECTOR - 5000)
        o2 = call(lambda: (v.seek(off), v.read(4096))[1])
        cnt["reads_compared"] = cnt.get("reads_compared", 0) + 1
        if not o2.ok or o2.value != model.expected(off, 4096):
            res["viol"].append({"what": "content mismatch at an extreme offset", "mech": MECH, "detail": {"offset": off, "outcome": o2.brief(), "lines": lines}})
            break
    tail = call(lambda: (v.seek(model.size - 3000), v.read(9000))[1])
    if not tail.ok or tail.value != model.expected(model.size - 3000, 9000):
        res["viol"].append({"what": "content mismatch at an extreme offset", "mech": MECH, "detail": {"offset": model.size - 3000, "outcome": tail.brief()}})
    for dsk in getattr(v, "disks", []):
        try:
            dsk.fh.close()
        except Exception:  # noqa: BLE001
            pass
    cnt["extent_lines_of_1e10_sectors_or_more"] = 1
    cnt["multi_tib_cases"] = 1
    res["sets"]["virtual_sizes_tib"] = [round(model.size / TIB, 2)]
    res["nontrivial"] = True
    res["sig"] = ("desc-huge", nsec, order)
    res["sample"] = {"format": "vmdk descriptor + flat extents", "lines": lines}
    return res


def run(case: dict, ctx) -> dict:
    from dissect.util import stream as ustream

    res = {"cnt": {}, "viol": [], "sets": {}}
    cnt = res["cnt"]
    rng = rng_for(ctx.seed, ID, case["fmt"], case["r"])
    while TMPDIRS:
        import shutil

        shutil.rmtree(TMPDIRS.pop(), ignore_errors=True)
    if case["fmt"] == "qcow2-many-open":
        return _many_open(rng, ctx, res, ustream.STREAM_BUFFER_SIZE)
    if case["fmt"] == "vmdk-desc-huge":
        return _desc_huge(rng, ctx, res)
    opener, sf, model, info = build(case["fmt"], rng)
    buf = ustream.STREAM_BUFFER_SIZE
    size = info["size"]
    # requests: hot offsets +- small, tiny and moderate lengths
    reqs = []
    for h in info["hot"]:
        if not 0 <= h < size:
            continue
        a = max(0, h - rng.choice([0, 0, 1, 511, 512, 4097]))
        reqs.append((a, rng.choice([1, 512, 513, 4096, 20000, 70000])))
        if h >= 16 * buf and rng.random() < 0.5:
            # one request that starts on a buffer boundary a little before the hot unit (usually in a hole of the mapping tables) and
            # runs into it: the stream layer hands such a request down in one piece
            k_ = rng.choice([1, 2, 8])
            reqs.append(((h // buf - k_) * buf, k_ * buf + rng.choice([512, 20000, 70000])))
    reqs.append((max(0, size - 70000), 90000))
    reqs.append((rng.randrange(size), 512))
    cu = info.get("compressed_unit", 0)
    unit = info["unit"]
    second = []
    for off, n in reqs:
        # second pass: a small request inside the same allocation unit (mapping tables are loaded by now)
        base_u = (off // unit) * unit
        o2_ = min(max(base_u, off + rng.choice([-buf, buf, 2 * buf, 0])), min(base_u + unit, size) - 1)
        o2_ = max(0, o2_)
        second.append((o2_, max(1, min(rng.choice([1, 512, 700, 4096]), min(base_u + unit, size) - o2_))))
    # one longer request over a run of stored units, issued twice: the second time every table it needs has been seen
    dense = info.get("dense")
    if dense:
        d_off = dense[0] + rng.randrange(0, unit)
        d_len = min(dense[1] - unit, rng.choice([600_000, 1_000_000, 1_100_000]))
        second = second + [(d_off, d_len), (d_off, d_len)]
    allreqs = reqs + second
    budget = int(2.2 * info["metadata_bytes"]) + sum(8 * (min(n, size - o) + 2 * buf) + 2 * cu for o, n in allreqs) + (128 << 10)
    fh = ProxyFile(sf.open(), budget=budget, name=info.get("name"))
    try:
        o = call(opener, fh)
        if not o.ok:
            res["viol"].append({"what": f"open failed on conformant image: {o.brief()}", "mech": MECH, "detail": {"tb": o.tb, "fmt": case["fmt"]}})
            return res
        st = o.value
        open_bytes = fh.bytes_read
        if st.size != size:
            res["viol"].append({"what": "size mismatch", "mech": MECH, "detail": {"got": st.size, "exp": size}})
            return res
        per_req = []
        for idx, (off, n) in enumerate(allreqs):
            before = fh.bytes_read
            o2 = call(lambda: (st.seek(off), st.read(n))[1])
            exp = model.expected(off, n)
            cnt["reads_compared"] = cnt.get("reads_compared", 0) + 1
            per_req.append(fh.bytes_read - before)
            if not o2.ok:
                res["viol"].append({"what": f"read raised at an extreme offset: {o2.brief()}", "mech": MECH, "detail": {"offset": off, "length": n, "tb": o2.tb}})
                break
            if o2.value != exp:
                res["viol"].append({"what": "content mismatch at an extreme offset", "mech": MECH, "detail": mismatch_detail(off, n, o2.value, exp)})
                break
            if idx >= len(reqs):
                # tables for this unit were loaded by the first pass: the cost must now be proportional to the request
                allowed = 8 * (len(exp) + 2 * buf) + 2 * cu + 4096
                if dense and idx == len(allreqs) - 1:
                    # the repeated long request: close to the bytes asked for
                    allowed = 2 * len(exp) + 2 * cu + (64 << 10)
                    cnt["repeated_long_requests"] = 1
                    res["sets"]["repeated_long_request_cost_ratio"] = [f"{case['fmt']}:{per_req[-1] / max(1, len(exp)):.2f}"]
                cnt["second_pass_requests"] = cnt.get("second_pass_requests", 0) + 1
                if per_req[-1] > allowed:
                    res["viol"].append({"what": "file I/O of a small request inside an already mapped unit is not proportional to the request",
                                        "mech": "lazy-io.per-request", "detail": {"offset": off, "length": n, "bytes_read": per_req[-1], "allowed": allowed,
                                                                                    "fmt": case["fmt"], "unit": unit}})
                    break
    except BudgetExceeded as e:
        res["viol"].append({"what": "file I/O exceeded the budget (metadata + small multiple of the request)", "mech": "lazy-io.budget",
                            "detail": {"msg": str(e), "budget": budget, "metadata_bytes": info["metadata_bytes"], "requested": sum(n for _, n in reqs),
                                       "bytes_read": fh.bytes_read, "fmt": case["fmt"]}})
        return res
    total = fh.bytes_read
    cnt["bytes_read_from_backing"] = total
    cnt["budget_bytes"] = budget
    cnt["open_bytes"] = open_bytes
    cnt["requested_bytes"] = sum(min(n, size - o) for o, n in reqs)
    cnt["multi_tib_cases"] = int(size >= TIB)
    cnt["cases_beyond_2^32_bytes"] = int(fh.max_off > (1 << 32))
    cnt["cases_beyond_2^32_sectors"] = int(fh.max_off > (1 << 41))
    if fh.mutations:
        res["viol"].append({"what": "handle mutated", "mech": "c09.handle", "detail": {"m": fh.mutations[:3]}})
    ratio = total / budget
    res["sets"]["budget_use_deciles"] = [f"{case['fmt']}:{int(ratio * 10) / 10}"]
    res["sets"]["virtual_sizes_tib"] = [round(size / TIB, 2)]
    if "gd_sector" in info:
        res["sets"]["vmdk_grain_directory_sector"] = [info["gd_sector"]]
    res["sets"]["max_file_offset_touched_log2"] = [f"{case['fmt']}:2^{max(fh.max_off, 1).bit_length() - 1}"]
    res["nontrivial"] = size >= TIB or fh.max_off > (1 << 32)
    while TMPDIRS:
        import shutil

        shutil.rmtree(TMPDIRS.pop(), ignore_errors=True)
    res["sig"] = (case["fmt"], case["r"], size, fh.max_off)
    res["sample"] = {"format": case["fmt"], "virtual_size": size, "metadata_bytes": info["metadata_bytes"], "bytes_read": total, "budget": budget,
                     "open_bytes": open_bytes, "max_file_offset_touched": fh.max_off, "requests": reqs[:4], "bytes_per_request": per_req[:4]}
    return res
