"""C05 - VDI: every byte range reads as the guest-visible content."""
from __future__ import annotations

import itertools

from vf.core import Model, as_handle, rng_for
from vf.diskcheck import closed_handle_reads, compare_reads, continuation_reads, fault_retry_reads, crossing_count, gen_requests
from vf.monitors import call
from vf.writers import vdi as w

ID = "C05"
LEVEL = "exploration"
CONTRACTS = True  # icontract postconditions on AlignedStream.read/peek/seek fire during this workload too
STEP_BUDGET = 3_000_000  # line events per case; a case that exceeds it is reported as non-termination
HANDLE_CLOSE_CHECK = True
ANCHOR_FILES = ["dissect/hypervisor/disk/vdi.py"]
RULE = (
    "VDI images written by an independent writer from a content model: block sizes 512 B..4 MiB, block maps "
    "with every mix of allocated/unallocated(-1)/zero(-2), all permutations of physical positions for <=4 blocks "
    "and random/reversed/run-wise placements beyond, disk sizes that are not a block multiple, arbitrary "
    "BlocksOffset/DataOffset; several images sharing one image UUID (the same disk at different times) opened in one process; children over a parent image in which zero-marked blocks cover parent data; requests are exhaustive sector pairs on tiny disks and boundary-set pairs + random "
    "byte-granular ones otherwise. A case is non-trivial when it has >=2 blocks and a block map that is not the "
    "identity, or a mix of block states; distinct = distinct (block size, nblocks, states, map) signatures."
    " Every stream additionally goes through: continuation sequences (read, visit elsewhere or have another user move the shared handles, resume at the earlier end / buffer end), reads under an injected transient backend I/O error followed by a retry on the same object (the failed call may raise; returned bytes must be right), and long reads (whole disk up to 24 MiB, else 6-24 MiB windows)."
)
ASSUMPTIONS = [
    "the harness's VDI writer and content model are a faithful reading of the VDI v1.1 layout",
    "held means: held on the executions listed, not verified for all inputs",
]
MINIMA = {"quick": {"reads_compared": 2000, "multi_block_requests": 200, "zero_blocks_over_parent_data": 10, "same_uuid_twin_images": 30}, "thorough": {"reads_compared": 300000}}
MECH = "vdi.read"


def plan(tier: str, seed: int) -> list[dict]:
    cases = []
    # exhaustive permutations of <=4 allocated blocks, tiny blocks
    for n in (1, 2, 3, 4):
        for perm in itertools.permutations(range(n)):
            for bs in ((512, 1024) if tier == "quick" else (512, 1024, 2048)):
                cases.append({"k": "perm", "bs": bs, "n": n, "perm": list(perm)})
    rng = rng_for(seed, ID, "plan")
    nrand = 140 if tier == "quick" else 15000
    # the format stores the block size as a plain byte count: not only powers of two
    sizes = [512, 1024, 1536, 2560, 4096, 8192, 12288, 16384, 65536, 0x18000, 1 << 20, (1 << 20) + 512] + ([2 << 20, 4 << 20] if tier == "thorough" else [])
    for i in range(nrand):
        bs = rng.choice(sizes)
        n = rng.randrange(1, 41 if bs <= 65536 else 7)
        cases.append(
            {
                "k": "rand", "bs": bs, "n": n, "i": i,
                "placement": rng.choice(["seq", "rev", "shuffle", "shuffle", "runs"]),
                "weight": 1 + (bs * n >> 20),
            }
        )
    if tier == "quick":
        # blocks larger than the 1 MiB default (with unallocated and zero blocks, read in one piece) in the quick tier too
        for j, bs in enumerate([2 << 20, 4 << 20, 8 << 20, 2 << 20]):
            cases.append({"k": "rand", "bs": bs, "n": rng.randrange(3, 6), "i": 1000 + j, "placement": rng.choice(["rev", "shuffle"]), "weight": 8})
    for i in range(16 if tier == "quick" else 400):
        cases.append({"k": "twin", "bs": rng.choice([512, 4096, 65536]), "n": rng.randrange(2, 16), "i": i, "placement": "shuffle"})
    for i in range(24 if tier == "quick" else 3000):
        bs = rng.choice([512, 1024, 4096, 65536])
        cases.append({"k": "parent", "bs": bs, "n": rng.randrange(2, 24), "i": i, "placement": "shuffle"})
    return cases


def _twin(case, ctx, rng):
    """Two images that carry the same image UUID (the same disk at two points in time: blocks rewritten, discarded,
    allocated in another order) opened one after the other in this process; each must read as its own content."""
    from dissect.hypervisor.disk.vdi import VDI

    res = {"cnt": {}, "viol": [], "sets": {}}
    bs, n = case["bs"], case["n"]
    uid = bytes(rng.randrange(256) for _ in range(16))
    opened = []
    for t in range(3):
        sf, layer, meta = w.build(rng, block_size=bs, nblocks=n, placement="shuffle", tag=rng.getrandbits(48), uuid=uid,
                                  states=[rng.choice("AAUZ") for _ in range(n)])
        o = call(VDI, as_handle(sf.to_bytes()))
        if not o.ok:
            res["viol"].append({"what": f"open failed on conformant image: {o.brief()}", "mech": MECH, "detail": {"tb": o.tb}})
            return res
        opened.append((o.value, Model(meta["size"], [layer])))
        for v_, m_ in opened:  # the new one and every earlier one again
            reqs, _ = gen_requests(rng, m_.size, [bs], n_random=10, pair_cap=30)
            compare_reads(v_, m_, reqs, res, MECH)
    res["cnt"]["same_uuid_twin_images"] = len(opened)
    res["nontrivial"] = True
    res["sig"] = ("twin", case["i"], bs, n)
    res["sample"] = {"twin_images_sharing_one_uuid": len(opened), "block_size": bs, "blocks": n}
    return res


def run(case: dict, ctx) -> dict:
    rng = rng_for(ctx.seed, ID, case["k"], case.get("i", 0), case["bs"], case["n"], case.get("perm"))
    bs, n = case["bs"], case["n"]
    if case["k"] == "twin":
        return _twin(case, ctx, rng)
    if case["k"] == "perm":
        sf, layer, meta = w.build(rng, block_size=bs, nblocks=n, states=["A"] * n, placement="seq")
        # re-map according to the permutation
        sf, layer, meta = _with_perm(rng, bs, n, case["perm"])
    elif case["k"] == "parent":
        # zero-marked (-2) blocks must read as zeros even when a parent holds data there; unallocated (-1)
        # blocks fall through to the parent
        states = [rng.choice("AUZZ") for _ in range(n)]
        states[rng.randrange(n)] = "Z"
        sf, layer, meta = w.build(rng, block_size=bs, nblocks=n, states=states, placement="shuffle", tag=rng.getrandbits(48))
        pbs = rng.choice([bs, bs, 512, 2048])
        pn = -(-meta["size"] // pbs)
        psf, player, pmeta = w.build(rng, block_size=pbs, nblocks=pn, states=["A"] * pn, placement="shuffle", tag=rng.getrandbits(48))
    else:
        tail = rng.choice([0, 0, rng.randrange(0, bs // 512) * 512, rng.randrange(0, bs)]) if n > 0 else 0
        empty = n > 0 and rng.random() < 0.08
        sf, layer, meta = w.build(
            rng, block_size=bs, nblocks=n, tail_cut=min(tail, bs - 1), placement=case["placement"],
            blocks_offset=rng.choice([512, 456, 1024, 4096 + 8 * rng.randrange(64)]),
            data_gap=rng.choice([0, 0, 512, 4096, 512 * rng.randrange(1, 64)]) if not empty else 0,
            holes=rng.choice([0, 0, 1, 3]) if not empty else 0, tag=rng.getrandbits(48),
            # a freshly created image: no block stored yet, nothing in the file behind the block map
            states=[rng.choice("UUZ") for _ in range(n)] if empty else None, tight_end=empty,
        )
    small = sf.end <= (8 << 20)
    tri = 0
    if small and case["k"] != "parent" and case.get("i", 0) % 3 == 0:
        from vf.diskcheck import triangulate
        from vf.refreaders import RefVDI

        triangulate(rng, RefVDI(sf.to_bytes()), Model(meta["size"], [layer]), "vdi")
        tri = 1
    fh = as_handle(sf.to_bytes() if small else sf)
    res = {"cnt": {}, "viol": [], "sets": {}}
    from dissect.hypervisor.disk.vdi import VDI

    if case["k"] == "parent":
        model = Model(meta["size"], [layer, player])
        po = call(VDI, as_handle(psf.to_bytes()))
        if not po.ok:
            res["viol"].append({"what": f"open failed on conformant parent: {po.brief()}", "mech": MECH, "detail": {"tb": po.tb}})
            return res
        if rng.random() < 0.4:
            # the chain is linked after opening (a caller that resolves UUIDParent once all images are open): the public
            # `parent` attribute decides at every read. (Nothing is read before the link is made: the stream layer may keep
            # the block it read last.)
            o = call(VDI, fh)
            if o.ok:
                o.value.parent = po.value
                res["cnt"]["parent_linked_after_open"] = 1
        else:
            o = call(VDI, fh, parent=po.value)
        res["cnt"]["parent_cases"] = 1
        res["cnt"]["zero_blocks_over_parent_data"] = meta["map"].count(-2)
    else:
        model = Model(meta["size"], [layer])
        o = call(VDI, fh)
    if not o.ok:
        res["viol"].append({"what": f"open failed on conformant image: {o.brief()}", "mech": MECH, "detail": {"tb": o.tb}})
        return res
    v = o.value
    if v.size != meta["size"]:
        res["viol"].append({"what": "size mismatch", "mech": MECH, "detail": {"got": v.size, "exp": meta["size"]}})
    reqs, exhaustive = gen_requests(rng, meta["size"], [bs], n_random=40 if ctx.tier == "quick" else 120)
    fault_retry_reads(v, model, reqs, rng, res, MECH, n=3)  # cold caches
    continuation_reads(v, model, reqs, rng, res, MECH)
    fault_retry_reads(v, model, reqs, rng, res, MECH)
    compare_reads(v, model, reqs, res, MECH)
    res["cnt"]["writer_triangulations"] = tri
    res["cnt"]["multi_block_requests"] = crossing_count(reqs, bs)
    res["cnt"]["midblock_starts"] = sum(1 for o_, _ in reqs if o_ % bs)
    res["cnt"]["exhaustive_request_cases"] = int(exhaustive)
    res["cnt"]["handle_mutations"] = len(fh.mutations)
    if fh.mutations:
        res["viol"].append({"what": "handle mutated", "mech": "c09.handle", "detail": {"m": fh.mutations[:3]}})
    if case.get("i", 0) % 4 == 0 and case["k"] != "parent":
        closed_handle_reads(v, model, [fh], reqs, rng, res, MECH)
    bmap = meta["map"]
    states = "".join("A" if b >= 0 else ("U" if b == -1 else "Z") for b in bmap)
    ident = [b for b in bmap if b >= 0] == list(range(sum(1 for b in bmap if b >= 0)))
    res["nontrivial"] = (n >= 2 and not ident) or len(set(states)) > 1
    res["sig"] = (bs, n, states, tuple(bmap), meta["size"])
    res["sets"]["block_sizes"] = [bs]
    res["sets"]["state_mixes"] = ["".join(sorted(set(states)))]
    if n <= 4:
        res["sets"]["perms_n<=4"] = [str([b for b in bmap])]
    res["sample"] = {"block_size": bs, "size": meta["size"], "map": bmap[:12], "data_offset": meta["data_offset"],
                     "requests": reqs[:3], "n_requests": len(reqs)}
    return res


def _with_perm(rng, bs, n, perm):
    """All-allocated image whose logical block i lives at physical position perm[i]."""
    import struct

    from vf.core import D, PatternGen, SparseFile, Layer, T

    sf, layer, meta = w.build(rng, block_size=bs, nblocks=n, states=["A"] * n, placement="seq", tag=rng.getrandbits(48))
    # rebuild with explicit map
    sf2 = SparseFile()
    hdr = sf.read_at(0, 512)
    sf2.put(0, hdr)
    sf2.put(meta["blocks_offset"], struct.pack(f"<{n}i", *perm))
    spb = bs // 512
    for i, p in enumerate(perm):
        sf2.put(meta["data_offset"] + p * bs, PatternGen(layer, i * spb, spb))
    sf2.size = meta["data_offset"] + n * bs
    meta = dict(meta, map=list(perm))
    return sf2, layer, meta
