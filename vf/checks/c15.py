"""C15 - Encrypted VMX: unlock round-trips and is authenticated."""
from __future__ import annotations

import copy

from vf.core import rng_for
from vf.monitors import call
from vf.writers import vmxcrypt as w

ID = "C15"
LEVEL = "fault_enumeration"
STEP_BUDGET = 4_000_000_000  # a case is thousands of unlock calls; termination is C11's subject
ANCHOR_FILES = ["dissect/hypervisor/descriptor/vmx.py"]
RULE = (
    "An independent VMX encryptor (AES-CBC + HMAC + PBKDF2 via pycryptodome/hashlib, key-safe / crypto-dict / URL "
    "encoding of its own) produces encrypted configurations for every AES-128/192/256 x HMAC-SHA-1 / HMAC-SHA-1-128 / "
    "HMAC-SHA-256 x PBKDF2-SHA-1/256 combination, rounds 1..2000, salts 8..32 bytes, configuration texts of 0..4 KiB "
    "incl. every length residue mod 16 and texts shorter than one cipher block, unicode passphrases (incl. leading / "
    "trailing blanks), key safes with several phrase pairs of which only one matches, and - in the same process - key safes "
    "that repeat a locator's id/KDF/cipher/rounds with a different salt. Positive oracle: after "
    "unlock_with_phrase the visible configuration contains every original entry. Fault enumeration: wrong / empty / "
    "near-miss passphrases, and single-byte alterations (at the decoded binary level, so base64 aliasing cannot "
    "create false alarms) of every IV, ciphertext and MAC byte of the wrapped key and of encryption.data (quick: all "
    "IV and MAC bytes, first/last two cipher blocks, sampled middle; thorough: every byte): unlock must raise and the "
    "visible configuration must stay bit-for-bit what it was. Non-trivial: every case; distinct = (combination, "
    "lengths, tamper position class)."
)
ASSUMPTIONS = [
    "pycryptodome/hashlib are the primitives on both sides of the oracle",
    "held means: held on the executions listed, not verified for all inputs",
]
MINIMA = {"quick": {"roundtrips": 150, "tamper_cases": 6000, "wrong_passphrase_cases": 300}, "thorough": {"tamper_cases": 60000}}
MECH = "vmx.unlock"
CIPHERS = ["AES-128", "AES-192", "AES-256"]
MACS = ["HMAC-SHA-1", "HMAC-SHA-1-128", "HMAC-SHA-256"]
KDFS = ["PBKDF2-HMAC-SHA-1", "PBKDF2-HMAC-SHA-256"]
PHRASES = ["password", "pässwörd 日本", " leading", "trailing ", "a", "with\ttab", "new\nline", "x" * 200, "😀😀", "Secret1!", "secret", "SECRET"]


def plan(tier: str, seed: int) -> list[dict]:
    cases = []
    i = 0
    reps = 3 if tier == "quick" else 12
    for _ in range(reps):
        for c in CIPHERS:
            for m in MACS:
                for k in KDFS:
                    for lenclass in ("tiny", "block", "any"):
                        cases.append({"i": i, "cipher": c, "mac": m, "kdf": k, "len": lenclass})
                        i += 1
    return cases


def gen_config(rng, lenclass: str):
    """-> (text, {key(lower): value})"""
    if lenclass == "tiny":
        # shorter than one AES block (so the whole plaintext plus padding is a single block)
        k = rng.choice(["a", "ab", "x1"])
        v = rng.choice(["", "1", "zz", "TRUE"])
        text = f'{k} = "{v}"\n'
        text = text[: rng.choice([len(text), len(text) - 1])] if len(text) <= 15 else f'{k}="{v}"'
        return text, {k.lower(): v}
    entries = {}
    n = rng.randrange(1, 40)
    for j in range(n):
        key = rng.choice(["scsi0:0.fileName", "guestOS", "displayName", "memsize", "ethernet0.address", f"k{j}.Sub.Key", "annotation", "uuid.bios"]) + (f".{j}" if rng.random() < 0.5 else "")
        val = "".join(rng.choice("abcXYZ 0123456789-_./:äé日本😀|") for _ in range(rng.randrange(0, 60))).strip(' "')
        if len(val) >= 2 and rng.random() < 0.15:
            # inside a value: characters that str.splitlines() (not the VMX grammar) treats as line ends
            cut = rng.randrange(1, len(val))
            val = val[:cut].rstrip() + rng.choice("\u2028\u2029\u0085\x0b\x0c\x1c\x1d\x1e") + val[cut:].lstrip()
            val = val if val == val.strip() else "x" + val.strip() + "x"
        entries[key] = val
    lines = [f'{k} = "{v}"' for k, v in entries.items()]
    text = "\n".join(lines) + "\n"
    if lenclass == "block":
        # plaintext length a multiple of 16 bytes: PKCS#7 adds a whole block of padding
        want = (-len(text.encode())) % 16
        text += "#" + "p" * (want - 2) + "\n" if want >= 2 else ("\n" * want)
        while len(text.encode()) % 16:
            text += "\n"
    model = {}
    for k, v in entries.items():
        model[k.lower()] = v
    return text, model


def tamper_positions(rng, blob_len: int, mac_len: int, tier: str) -> list[int]:
    if tier == "thorough" or blob_len <= 120:
        return list(range(blob_len))
    pos = set(range(0, 16))  # IV
    pos |= set(range(16, min(48, blob_len)))  # first two cipher blocks
    pos |= set(range(max(16, blob_len - mac_len - 32), blob_len))  # last two cipher blocks + MAC
    for _ in range(20):
        pos.add(rng.randrange(16, blob_len))
    return sorted(pos)


def run(case: dict, ctx) -> dict:
    import base64

    from dissect.hypervisor.descriptor.vmx import VMX

    res = {"cnt": {}, "viol": [], "sets": {}}
    cnt = res["cnt"]
    rng = rng_for(ctx.seed, ID, case["i"])
    cipher, mac, kdf = case["cipher"], case["mac"], case["kdf"]
    # the configuration key has its own cipher, independent of the one wrapping it
    data_cipher = cipher if case["i"] % 3 == 0 else rng.choice(CIPHERS)
    ks = w.KEY_SIZES[data_cipher]
    text, model = gen_config(rng, case["len"])
    phrase = rng.choice(PHRASES)
    rounds = rng.choice([1, 2, 10, 1000, rng.randrange(1, 2001)])
    if case["i"] % 23 == 5:
        rounds = rng.choice([100_001, 250_000, 600_000])  # what current products write (the count is a 32-bit decimal; nothing bounds it)
    salt = bytes(rng.randrange(256) for _ in range(rng.choice([8, 16, 32, rng.randrange(8, 33), rng.randrange(0, 8), 0])))
    data_key = bytes(rng.randrange(256) for _ in range(ks))
    dict_style = rng.choice(["full", "vmware", "vmware"])
    if dict_style == "vmware" and rng.random() < 0.5:
        # make sure the base64 of the salt really contains '+' and '/' (bytes 0xfb 0xef 0xbe.. encode to "++++", 0xff.. to "////")
        salt = (b"\xfb\xef\xbe\xff\xff\xff" + salt)[: max(len(salt), 8)]
        data_key = (b"\xfb\xef\xbe\xff\xff\xff" + data_key)[:ks]
    real_ident = rng.choice(["id1", "a b/c", "ключ"])
    blob, p = w.phrase_pair(rng, phrase, data_key, cipher=cipher, mac=mac, kdf=kdf, rounds=rounds, salt=salt, ident=real_ident,
                            data_cipher=data_cipher, dict_style=dict_style)
    # decoy pairs that do not match the passphrase
    decoys = []
    for j in range(rng.choice([0, 0, 1, 3, 3, 15, 16, 24])):
        dk2 = bytes(rng.randrange(256) for _ in range(ks))
        b2, p2 = w.phrase_pair(rng, phrase + f"-other{j}", dk2, cipher=rng.choice(CIPHERS), mac=rng.choice(MACS), kdf=rng.choice(KDFS),
                               rounds=rng.randrange(1, 50), salt=bytes(rng.randrange(256) for _ in range(16)),
                               # several pairs may carry the same phrase id (the same key slot re-wrapped under another passphrase)
                               ident=f"decoy{j}" if rng.random() < 0.7 else real_ident)
        decoys.append(w.pair_text(b2, p2))
    data_blob = w.seal(data_key, text.encode(), mac, bytes(rng.randrange(256) for _ in range(16)))
    plain_lines = [f'displayName = "{rng.choice(["vm", "VM 1", "é"])}"', "# comment"] if rng.random() < 0.5 else []

    def make(blob_=blob, data_=data_blob, where=None):
        pairs = list(decoys)
        pairs.insert(rng.randrange(0, len(pairs) + 1) if where is None else where, w.pair_text(blob_, p))
        return w.vmx_text(w.keysafe_text(pairs), data_, plain_lines)

    where = rng.randrange(0, len(decoys) + 1)
    # ---- positive
    vm = call(VMX.parse, make(where=where))
    if not vm.ok:
        res["viol"].append({"what": f"parse failed: {vm.brief()}", "mech": MECH, "detail": {"tb": vm.tb}})
        return res
    v = vm.value
    if not v.encrypted:
        res["viol"].append({"what": "encrypted VMX not recognised as encrypted", "mech": MECH, "detail": {}})
    before = dict(v.attr)
    o = call(v.unlock_with_phrase, phrase)
    cnt["roundtrips"] = 1
    combo = f"{cipher}/{mac}/{kdf}"
    cnt["wrapping_cipher_differs_from_data_cipher"] = int(cipher != data_cipher)
    if not o.ok:
        res["viol"].append({"what": f"unlock with the correct passphrase failed: {o.brief()}", "mech": MECH,
                            "detail": {"combo": combo, "rounds": rounds, "salt_len": len(salt), "text_len": len(text.encode()), "phrase": phrase, "tb": o.tb}})
    else:
        missing = {k: val for k, val in model.items() if v.attr.get(k) != val}
        if missing:
            k0 = next(iter(missing))
            res["viol"].append({"what": "unlocked configuration differs from the original entries", "mech": MECH,
                                "detail": {"combo": combo, "key": k0, "got": v.attr.get(k0), "exp": missing[k0], "text_len": len(text.encode())}})
        lost = [k for k in before if k not in v.attr]
        if lost:
            res["viol"].append({"what": "entries visible before unlock disappeared", "mech": MECH, "detail": {"lost": lost[:3]}})
    def again(label):
        # the very same text parsed and unlocked again in this process: no state may be carried between unlocks
        vr = VMX.parse(make(where=where))
        orr = call(vr.unlock_with_phrase, phrase)
        cnt["repeat_roundtrips"] = cnt.get("repeat_roundtrips", 0) + 1
        if not orr.ok or any(vr.attr.get(k_) != val for k_, val in model.items()):
            res["viol"].append({"what": f"unlocking the same encrypted text again ({label}) does not give the original entries", "mech": MECH,
                                "detail": {"combo": combo, "outcome": orr.brief()}})

    if not res["viol"]:
        again("immediately")
    if not res["viol"]:
        # one object, several attempts: rejected passphrases first, then the right one
        vr = VMX.parse(make(where=where))
        snap_r = copy.deepcopy(vr.attr)
        for wp in rng.sample([phrase + "x", "", phrase[:-1] or "q", phrase.swapcase() if phrase.swapcase() != phrase else phrase + "1"], k=rng.choice([1, 2])):
            ow = call(vr.unlock_with_phrase, wp)
            if ow.ok:
                res["viol"].append({"what": "unlock succeeded with a wrong passphrase", "mech": "vmx.auth", "detail": {"combo": combo, "right": phrase, "used": wp}})
            elif vr.attr != snap_r:
                res["viol"].append({"what": "visible configuration changed although unlock failed", "mech": "vmx.auth", "detail": {"combo": combo}})
        orr = call(vr.unlock_with_phrase, phrase)
        cnt["retry_on_same_object_roundtrips"] = 1
        if orr.ok and not res["viol"]:
            # ... and after the object has been unlocked, another passphrase is still another passphrase
            snap_u = copy.deepcopy(vr.attr)
            for wp in (phrase + " ", "", phrase[::-1] if phrase[::-1] != phrase else phrase + "z"):
                ow2 = call(vr.unlock_with_phrase, wp)
                cnt["wrong_passphrase_cases"] = cnt.get("wrong_passphrase_cases", 0) + 1
                if ow2.ok:
                    res["viol"].append({"what": "unlock with a wrong passphrase succeeded on an object that had been unlocked before", "mech": "vmx.auth",
                                        "detail": {"combo": combo, "right": phrase, "used": wp}})
                    break
                if vr.attr != snap_u:
                    res["viol"].append({"what": "visible configuration changed although unlock failed", "mech": "vmx.auth", "detail": {"combo": combo}})
                    break
        if not res["viol"] and (not orr.ok or any(vr.attr.get(k_) != val for k_, val in model.items())):
            res["viol"].append({"what": "the correct passphrase does not unlock an object on which a wrong passphrase was tried before", "mech": MECH,
                                "detail": {"combo": combo, "outcome": orr.brief()}})
    # ---- the same locator parameters (id, KDF, cipher, rounds, passphrase) with other salts, in this same process:
    # the derived key is a function of the salt too
    for salt2 in (bytes(rng.randrange(256) for _ in range(max(len(salt), 1))), (salt[:-1] + bytes([salt[-1] ^ 0x01])) if salt else b"\x01", salt + b"\x00"):
        if res["viol"]:
            break
        dk2 = bytes(rng.randrange(256) for _ in range(ks))
        blob2, p2 = w.phrase_pair(rng, phrase, dk2, cipher=cipher, mac=mac, kdf=kdf, rounds=rounds, salt=salt2, ident=p["ident"], data_cipher=data_cipher)
        data2 = w.seal(dk2, text.encode(), mac, bytes(rng.randrange(256) for _ in range(16)))
        v3 = VMX.parse(w.vmx_text(w.keysafe_text([w.pair_text(blob2, p2)]), data2, plain_lines))
        o3 = call(v3.unlock_with_phrase, phrase)
        cnt["same_locator_other_salt_roundtrips"] = cnt.get("same_locator_other_salt_roundtrips", 0) + 1
        if not o3.ok or any(v3.attr.get(k_) != val for k_, val in model.items()):
            res["viol"].append({"what": "a key safe that differs from an earlier one only in its salt does not unlock with the correct passphrase",
                                "mech": MECH, "detail": {"combo": combo, "salt_len": len(salt2), "outcome": o3.brief()}})
        # and the earlier file with only the salt replaced (wrapped key unchanged) must not unlock
        v4 = VMX.parse(w.vmx_text(w.keysafe_text([w.pair_text(blob, dict(p, salt=salt2))]), data_blob, plain_lines))
        snap4 = copy.deepcopy(v4.attr)
        o4 = call(v4.unlock_with_phrase, phrase)
        cnt["tamper_cases"] = cnt.get("tamper_cases", 0) + 1
        if o4.ok:
            res["viol"].append({"what": "unlock succeeded although the salt of the key locator was altered", "mech": "vmx.auth", "detail": {"combo": combo}})
        elif v4.attr != snap4:
            res["viol"].append({"what": "visible configuration changed although unlock failed", "mech": "vmx.auth", "detail": {"combo": combo}})
    # ---- negative: passphrases
    wrong = ["", phrase + "x", phrase[:-1], phrase.upper() if phrase.upper() != phrase else phrase.lower(), " " + phrase, phrase + " ", phrase + "\n", phrase.strip() if phrase.strip() != phrase else phrase + "\t"]
    for wp in wrong:
        if wp == phrase:
            continue
        v2 = VMX.parse(make(where=where))
        snap = copy.deepcopy(v2.attr)
        o2 = call(v2.unlock_with_phrase, wp)
        cnt["wrong_passphrase_cases"] = cnt.get("wrong_passphrase_cases", 0) + 1
        if o2.ok:
            res["viol"].append({"what": "unlock succeeded with a wrong passphrase", "mech": "vmx.auth", "detail": {"combo": combo, "right": phrase, "used": wp}})
            break
        if v2.attr != snap:
            res["viol"].append({"what": "visible configuration changed although unlock failed", "mech": "vmx.auth", "detail": {"combo": combo}})
            break
    # ---- negative: tampering
    mac_len = w.MACS[mac][1]
    classes = set()
    for field, blob0 in (("wrapped-key", blob), ("encryption.data", data_blob)):
        for pos in tamper_positions(rng, len(blob0), mac_len, ctx.tier):
            if res["viol"]:
                break
            b = bytearray(blob0)
            b[pos] ^= rng.randrange(1, 256)
            vt = VMX.parse(make(bytes(b), data_blob, where) if field == "wrapped-key" else make(blob, bytes(b), where))
            snap = copy.deepcopy(vt.attr)
            ot = call(vt.unlock_with_phrase, phrase)
            cnt["tamper_cases"] = cnt.get("tamper_cases", 0) + 1
            region = "iv" if pos < 16 else ("mac" if pos >= len(blob0) - mac_len else ("last-block" if pos >= len(blob0) - mac_len - 16 else "ciphertext"))
            classes.add(f"{field}:{region}")
            if ot.ok:
                res["viol"].append({"what": "unlock succeeded although an encrypted field was altered", "mech": "vmx.auth",
                                    "detail": {"combo": combo, "field": field, "byte": pos, "region": region, "blob_len": len(blob0),
                                               "plaintext_len": len(text.encode()) if field == "encryption.data" else None}})
            elif vt.attr != snap:
                res["viol"].append({"what": "visible configuration changed although unlock failed", "mech": "vmx.auth", "detail": {"combo": combo, "field": field, "byte": pos}})
    if not res["viol"]:
        again("after the rejected attempts")
    res["sets"]["combinations"] = [combo]
    res["sets"]["wrapping_vs_data_cipher"] = [f"{cipher}/{data_cipher}"]
    res["sets"]["tamper_classes"] = sorted(classes)
    res["sets"]["plaintext_len_mod16"] = [len(text.encode()) % 16]
    res["nontrivial"] = True
    res["sig"] = (case["i"], combo, len(text), rounds, len(salt))
    res["sample"] = {"combo": combo, "rounds": rounds, "salt_len": len(salt), "config_bytes": len(text.encode()), "pairs": 1 + len(decoys),
                     "passphrase": phrase[:20], "tamper_positions": cnt.get("tamper_cases", 0)}
    return res
