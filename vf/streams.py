"""Factory of opened disk streams (real repository classes) paired with their ground-truth model.

Used by the history check (C08), the read-only sweep (C09) and others. Images are sized so that every
internal cache (128 L2 / grain tables, 4096 BAT entries) can be overflowed when `overflow` is set.
"""
from __future__ import annotations

import os
from pathlib import Path

from vf.core import SECTOR, ConcatModel, Model, RawLayer, as_handle, rng_for
from vf.writers import hds as whds
from vf.writers import qcow2 as wq
from vf.writers import vdi as wvdi
from vf.writers import vhd as wvhd
from vf.writers import vhdx as wvhdx
from vf.writers import vmdk as wvmdk

KINDS = [
    "qcow2", "qcow2-ext", "qcow2-snap", "qcow2-backing", "vmdk-hosted", "vmdk-stream", "vmdk-cowd", "vmdk-sesparse",
    "vmdk-flat", "vmdk-multi", "vhdx", "vhdx-4k", "vhd-dyn", "vhd-fixed", "vdi", "hds-v1", "hds-v2", "hdd-storages",
]


class Opened:
    def __init__(self, stream, model, sector_size=None, read_sectors=None, handles=(), info=None, sector_limit=None):
        self.stream = stream
        self.model = model
        self.sector_size = sector_size          # sector size of read_sectors (None: no sector API)
        self.read_sectors = read_sectors
        self.handles = list(handles)            # ProxyFile objects handed to the repository
        self.info = info or {}
        self.sector_limit = sector_limit


def _h(sf, **kw):
    return as_handle(sf.to_bytes() if sf.end <= (8 << 20) else sf, **kw)


def open_kind(kind: str, rng, ctx, overflow: bool = False) -> Opened:
    tag = rng.getrandbits(48)
    if kind in ("qcow2", "qcow2-ext", "qcow2-snap", "qcow2-backing"):
        from dissect.hypervisor.disk.qcow2 import QCow2

        ext = kind == "qcow2-ext"
        cb = 14 if ext else rng.choice([9, 9, 10])
        cs = 1 << cb
        l2_entries = cs // (16 if ext else 8)
        if overflow and not ext:
            ncl = l2_entries * rng.randrange(130, 140) + rng.randrange(1, l2_entries)
        elif ext:
            ncl = rng.randrange(6, 40)
        else:
            ncl = rng.randrange(l2_entries, 4 * l2_entries)
        size = ncl * cs - rng.choice([0, SECTOR * rng.randrange(0, cs // SECTOR)])
        dens = 0.25 if ncl > 2000 else 0.7
        alpha = "NNZzUCSSuu" if ext else "NNZzUC"
        kinds = {g: rng.choice(alpha) for g in range(ncl) if rng.random() < dens}
        kinds = {g: k for g, k in kinds.items() if k != "U"}
        view = wq.make_view(rng, size=size, cluster_bits=cb, kinds=kinds, extl2=ext, tag=tag)
        views = [view]
        layers = [view.layer]
        backing = None
        bname = None
        if kind == "qcow2-snap":
            # the snapshot may have been taken when the disk was smaller: it then maps only the front part
            lim = rng.choice([ncl, ncl, max(1, ncl // 2), max(1, ncl // 4)])
            k2 = {g: rng.choice("NNZC") for g in range(lim) if rng.random() < dens}
            views.append(wq.make_view(rng, size=size, cluster_bits=cb, kinds=k2, extl2=ext, tag=tag ^ 0x55AA))
        if kind == "qcow2-backing":
            import hashlib

            blen = max(size - rng.randrange(0, 3 * cs) - rng.randrange(0, SECTOR), 0)
            braw = hashlib.shake_128(tag.to_bytes(8, "little")).digest(min(blen, 1 << 21))
            braw = (braw * (blen // max(len(braw), 1) + 1))[:blen]
            backing = as_handle(braw)
            bname = b"base.raw"
            layers.append(RawLayer(braw))
        # header lengths of old (104, no compression-type byte) and current (112) writers, with header extensions following
        exts = [wq.extension(0x6803F857, bytes(rng.randrange(1, 256) for _ in range(48 * rng.randrange(1, 4))))] if rng.random() < 0.6 else None
        img, _, meta = wq.build(rng, cluster_bits=cb, size=size, views=views, version=3, extl2=ext, placement="shuffle",
                                backing_name=bname, tuned_frac=0.1, header_length=rng.choice([104, 112, 112]), extensions=exts,
                                snap_short_l1=rng.random() < 0.6)
        fh = _h(img)
        q = QCow2(fh, backing_file=backing)
        if kind == "qcow2-snap":
            # touch the active image first so that its buffer is warm, then open the snapshot view
            q.read(16)
            snap = q.snapshots[0].open()
            return Opened(snap, Model(size, [views[1].layer]), handles=[fh], info={"cb": cb, "clusters": ncl, "l2_tables": -(-ncl // l2_entries)})
        return Opened(q, Model(size, layers), handles=[fh] + ([backing] if backing else []),
                      info={"cb": cb, "clusters": ncl, "l2_tables": -(-ncl // l2_entries)})

    if kind.startswith("vmdk-"):
        from dissect.hypervisor.disk.vmdk import VMDK

        sub = kind[5:]
        if sub == "hosted":
            grain, ngte = rng.choice([(1, 64), (2, 64), (8, 64)]), None
            grain, ngte = grain[0], grain[1]
            ntab = rng.randrange(130, 140) if overflow else rng.randrange(2, 6)
            cap = grain * ngte * ntab + rng.randrange(1, grain * ngte)
            ngr = -(-cap // grain)
            st = {g: rng.choice("AAZ") for g in range(ngr) if rng.random() < (0.2 if overflow else 0.6)}
            sf, layer, meta = wvmdk.build_hosted(rng, capacity=cap, grain=grain, ngte=ngte, states=st, placement="shuffle", tag=tag, empty_tables=False)
        elif sub == "stream":
            grain, ngte = rng.choice([8, 32, 64]), 128
            cap = grain * ngte * rng.randrange(1, 3) + rng.randrange(1, 900)
            sf, layer, meta = wvmdk.build_stream_optimized(rng, capacity=cap, grain=grain, ngte=ngte, tag=tag, slots=rng.random() < 0.5)
        elif sub == "cowd":
            grain = 1
            ntab = rng.randrange(130, 134) if overflow else rng.randrange(1, 4)
            cap = 4096 * ntab + rng.randrange(1, 4000)
            ngr = cap
            st = {}
            for t in range(-(-ngr // 4096)):
                for _ in range(rng.randrange(1, 12)):
                    st[min(t * 4096 + rng.randrange(4096), ngr - 1)] = "A"
            sf, layer, meta = wvmdk.build_cowd(rng, capacity=cap, grain=grain, states=st, placement="shuffle", tag=tag, empty_tables=False)
        elif sub == "sesparse":
            grain, gts = rng.choice([1, 8]), 1
            ngte = 64
            ntab = rng.randrange(130, 140) if overflow else rng.randrange(2, 6)
            cap = grain * ngte * ntab + rng.randrange(1, grain * ngte)
            ngr = -(-cap // grain)
            st = {g: rng.choice("AAFZ") for g in range(ngr) if rng.random() < (0.2 if overflow else 0.6)}
            sf, layer, meta = wvmdk.build_sesparse(rng, capacity=cap, grain=grain, gt_sectors=gts, states=st, placement="shuffle", tag=tag, big_index=True, empty_tables=False)
        elif sub == "flat":
            sf, layer, meta = wvmdk.build_flat(rng, nsectors=rng.randrange(1, 3000), tag=tag)
        else:  # multi: list of handles
            parts = []
            fhs = []
            for j in range(rng.randrange(2, 5)):
                pk = rng.choice(["hosted", "flat", "sesparse"])
                if pk == "hosted":
                    sfp, lay, m = wvmdk.build_hosted(rng, capacity=rng.randrange(1, 900), grain=rng.choice([1, 8, 16]), ngte=64, placement="shuffle", tag=tag + j)
                elif pk == "flat":
                    sfp, lay, m = wvmdk.build_flat(rng, nsectors=rng.randrange(1, 500), tag=tag + j)
                else:
                    sfp, lay, m = wvmdk.build_sesparse(rng, capacity=rng.randrange(1, 900), grain=8, gt_sectors=1, placement="shuffle", tag=tag + j)
                parts.append(Model(m["size"], [lay]))
                fhs.append(_h(sfp))
            v = VMDK(fhs)
            model = ConcatModel(parts)
            return Opened(v, model, SECTOR, v.read_sectors, handles=fhs, info={"extents": len(parts)}, sector_limit=model.size // SECTOR)
        fh = _h(sf)
        v = VMDK(fh)
        return Opened(v, Model(meta["size"], [layer]), SECTOR, v.read_sectors, handles=[fh],
                      info={"grain": meta.get("grain"), "tables": meta.get("ngd")}, sector_limit=meta["size"] // SECTOR)

    if kind in ("vhdx", "vhdx-4k"):
        from dissect.hypervisor.disk.vhdx import VHDX

        ss = 4096 if kind.endswith("4k") else 512
        bs = 1 << 20
        ratio = (2**23 * ss) // bs
        # more than 4 GiB of 1 MiB blocks: beyond the first sector-bitmap chunk for 512-byte sectors, and beyond what a
        # "4 GiB per chunk" shortcut gets right for 4096-byte sectors
        n = rng.randrange(4200, 4400) if (overflow or rng.random() < 0.3) else rng.randrange(2, 9)
        states = [0] * n
        for _ in range(12 if n > 100 else n):
            states[rng.randrange(n)] = rng.choice([6, 6, 6, 2, 3])
        states[n - 1] = 6
        if n > ratio:
            states[ratio - 1] = states[ratio] = 6
        if n > 4097:
            states[4095] = states[4096] = states[4097] = 6
        tail = rng.choice([0, rng.randrange(0, bs // ss)])
        sf, layer, meta = wvhdx.build(rng, block_size=bs, sector_size=ss, nblocks=n, tail_cut_sectors=tail, states=states,
                                      placement="shuffle", tag=tag, checksums=False)
        fh = as_handle(sf)
        v = VHDX(fh)
        return Opened(v, Model(meta["size"], [layer]), ss, v.read_sectors, handles=[fh], info={"blocks": n, "sector": ss},
                      sector_limit=meta["size"] // ss)

    if kind == "vhd-dyn":
        from dissect.hypervisor.disk.vhd import VHD

        bs = rng.choice([512, 1024, 4096])
        n = rng.randrange(4200, 4400) if overflow else rng.randrange(2, 60)
        states = ["A" if rng.random() < (0.15 if n > 1000 else 0.7) else "U" for _ in range(n)]
        states[-1] = "A"
        sf, layer, meta = wvhd.build_dynamic(rng, block_size=bs, nblocks=n, tail_cut_sectors=rng.choice([0, rng.randrange(0, bs // SECTOR)]),
                                             states=states, placement="shuffle", tag=tag,
                                             # blocks stored around and beyond 1 TiB into the file (table entries >= 2^31)
                                             far_sector=rng.choice([0, 0, (1 << 31) - 40, 1 << 31, 0xC0000000]),
                                             table_place=rng.choice(["front", "front", "behind", "middle"]))
        fh = _h(sf)
        v = VHD(fh)
        return Opened(v, Model(meta["size"], [layer]), SECTOR, v.disk.read_sectors, handles=[fh], info={"blocks": n, "block_size": bs},
                      sector_limit=meta["size"] // SECTOR)
    if kind == "vhd-fixed":
        from dissect.hypervisor.disk.vhd import VHD

        sf, layer, meta = wvhd.build_fixed(rng, nsectors=rng.randrange(1, 4000), legacy=rng.random() < 0.5, tag=tag)
        fh = _h(sf)
        v = VHD(fh)
        return Opened(v, Model(meta["size"], [layer]), SECTOR, v.disk.read_sectors, handles=[fh], sector_limit=meta["size"] // SECTOR)
    if kind == "vdi":
        from dissect.hypervisor.disk.vdi import VDI

        bs = rng.choice([512, 4096, 65536, 1 << 20])
        n = rng.randrange(1, 60 if bs <= 4096 else 8)
        sf, layer, meta = wvdi.build(rng, block_size=bs, nblocks=n, tail_cut=rng.choice([0, rng.randrange(0, bs)]), placement="shuffle", tag=tag)
        fh = _h(sf)
        return Opened(VDI(fh), Model(meta["size"], [layer]), handles=[fh], info={"block_size": bs, "blocks": n})
    if kind in ("hds-v1", "hds-v2"):
        from dissect.hypervisor.disk.hdd import HDS

        ms = rng.choice([1, 3, 16, 256])
        n = rng.randrange(1, 80 if ms <= 16 else 10)
        sf, layer, meta = whds.build_hds(rng, version=int(kind[-1]), m_sectors=ms, nclusters=n, tail_cut_sectors=rng.choice([0, rng.randrange(0, ms)]),
                                         placement=rng.choice(["shuffle", "coincidence"]), tag=tag, unaligned_v1=rng.random() < 0.5)
        fh = _h(sf)
        return Opened(HDS(fh), Model(meta["size"], [layer]), handles=[fh], info={"cluster_sectors": ms, "clusters": n})
    if kind == "hdd-storages":
        from dissect.hypervisor.disk.hdd import HDD

        d = ctx.tmpdir()
        hd = os.path.join(d, "m.hdd")
        g = whds.DEFAULT_TOP
        storages, files, parts = [], {}, []
        start = 0
        for j in range(rng.randrange(2, 5)):
            if rng.random() < 0.7:
                ms = rng.choice([1, 8, 16])
                n = rng.randrange(1, 40)
                sf, layer, meta = whds.build_hds(rng, version=rng.choice([1, 2]), m_sectors=ms, nclusters=n, placement="shuffle", tag=tag + j,
                                                 in_use=rng.random() < 0.3)
                typ = "Compressed"
                nsec = meta["size"] // SECTOR
                parts.append(Model(meta["size"], [layer]))
                files[f"m.hdd.{j}.hds"] = sf
            else:
                nsec = rng.randrange(1, 300)
                sfp, lay, m = wvmdk.build_flat(rng, nsectors=nsec, tag=tag + j)
                typ = "Plain"
                parts.append(Model(m["size"], [lay]))
                files[f"m.hdd.{j}.hds"] = sfp
            if nsec > 2 and rng.random() < 0.3:
                # the image is larger than the range its storage occupies (padded plain file, capacity rounded up to whole
                # clusters): the storage's sector range decides
                nsec -= rng.randrange(1, min(nsec, 40))
                parts[-1] = Model(nsec * SECTOR, parts[-1].layers)
            storages.append({"start": start, "end": start + nsec, "images": [{"guid": g, "type": typ, "file": f"m.hdd.{j}.hds"}]})
            start += nsec
        order = list(storages)
        rng.shuffle(order)
        whds.write_hdd_dir(hd, order, [(g, whds.NULL_GUID)], files=files)
        st = HDD(Path(hd)).open()
        return Opened(st, ConcatModel(parts), info={"storages": len(parts)})
    raise ValueError(kind)
