"""Builders of layered disks (differencing / delta / snapshot / backing chains) on real temp directories.

Each builder returns streams.Opened with a Model whose layers are ordered top -> bottom.
"""
from __future__ import annotations

import hashlib
import os
from pathlib import Path

from vf.core import SECTOR, Model, RawLayer, as_handle
from vf.streams import Opened
from vf.writers import hds as whds
from vf.writers import qcow2 as wq
from vf.writers import vdi as wvdi
from vf.writers import vhdx as wvhdx
from vf.writers import vmdk as wvmdk

MB = 1 << 20
CHAIN_KINDS = ["vhdx-diff", "vmdk-delta", "hdd-snapshots", "qcow2-chain", "qcow2-snapshots", "vdi-parent"]


def bitmap_flags(rng, n: int) -> bytes:
    """Per-sector presence flags of one class (uniform bytes, single bits, alternating, random, runs)."""
    cls = rng.choice(["random", "alt", "single", "runs", "bytes", "edges", "sparse-bytes"])
    if cls == "random":
        return bytes(rng.getrandbits(1) for _ in range(n))
    if cls == "alt":
        p = rng.choice([1, 2, 3, 4, 7, 8, 9])
        return bytes((i // p) & 1 for i in range(n))
    if cls == "single":
        f = bytearray(n)
        for _ in range(rng.randrange(1, 6)):
            f[rng.randrange(n)] = 1
        if rng.random() < 0.5:
            f = bytearray(1 - b for b in f)
        return bytes(f)
    if cls == "runs":
        f = bytearray()
        v = rng.getrandbits(1)
        while len(f) < n:
            f += bytes([v]) * rng.randrange(1, 40)
            v ^= 1
        return bytes(f[:n])
    if cls == "bytes":
        # whole bitmap bytes uniform (0x00 / 0xFF) with a few mixed bytes in between: the fast path of run decoders
        f = bytearray()
        while len(f) < n:
            r = rng.random()
            if r < 0.4:
                f += b"\x00" * 8
            elif r < 0.8:
                f += b"\x01" * 8
            else:
                f += bytes(rng.getrandbits(1) for _ in range(8))
        return bytes(f[:n])
    if cls == "sparse-bytes":
        f = bytearray(b"\x01" * n if rng.random() < 0.5 else n)
        for _ in range(rng.randrange(1, 5)):
            i = rng.randrange(n)
            f[i] ^= 1
        return bytes(f)
    f = bytearray(n)
    k = rng.randrange(1, 9)
    f[:k] = b"\x01" * k
    f[-k:] = b"\x01" * k
    return bytes(f)


# --------------------------------------------------------------------------- VHDX


def vhdx_diff(rng, ctx, depth: int = 2, sector_size: int = 512, parent_config: str = "relative", block_mb: int = 1,
              nblocks: int | None = None, open_mode: str = "path", beyond_chunk: bool = False) -> Opened:
    from dissect.hypervisor.disk.vhdx import VHDX

    d = Path(ctx.tmpdir())
    bs = block_mb * MB
    spb = bs // sector_size
    n = nblocks or rng.randrange(2, 6)
    ratio = (2**23 * sector_size) // bs
    interesting = None
    if beyond_chunk:
        # more blocks than one chunk: sector-bitmap BAT slots of later chunks must be found too
        nch = rng.choice([1, 2])
        n = ratio * nch + rng.randrange(2, 6)
        interesting = sorted({ratio * c + d_ for c in range(1, nch + 1) for d_ in (-1, 0, 1) if 0 <= ratio * c + d_ < n} | {0, n - 1, rng.randrange(n)})
    tail = rng.choice([0, 0, rng.randrange(0, spb)])
    layers = []
    names = []
    subdir = d / "disks"
    subdir.mkdir()
    info = {"partial_blocks": 0}
    for level in range(depth):  # level 0 = base
        is_base = level == 0
        tag = rng.getrandbits(48)
        if is_base:
            if interesting is None:
                states = [rng.choice([0, 2, 6, 6]) for _ in range(n)]
            else:
                states = [0] * n
                for b_ in interesting:
                    states[b_] = rng.choice([6, 6, 0])
            partial = {}
        else:
            if interesting is None:
                states = [rng.choice([0, 0, 6, 7, 7, 7, 2]) for _ in range(n)]
            else:
                states = [0] * n
                for b_ in interesting:
                    states[b_] = rng.choice([7, 7, 7, 6, 0])
            if 7 not in states:
                states[rng.choice(interesting) if interesting else rng.randrange(n)] = 7
            partial = {i: bitmap_flags(rng, spb) for i, s in enumerate(states) if s == 7}
            info["partial_blocks"] += len(partial)
        name = f"disk{level}.vhdx" if is_base else f"disk{level} snap é.avhdx"
        loc = None
        if not is_base:
            pname = names[-1]
            cfg = parent_config if level == depth - 1 else "relative"
            if cfg == "nested-decoy" and level != 1:
                cfg = "both-decoy"  # moving a parent that has a parent of its own would break its own reference
            rel = f".\\{pname}"

            def decoy(path):
                # a well-formed disk of the same geometry and other content where a wrong lookup order would find it
                path.parent.mkdir(parents=True, exist_ok=True)
                dsf, _, _ = wvhdx.build(rng, block_size=bs, sector_size=sector_size, nblocks=n, tail_cut_sectors=tail, states=[6] * n,
                                        placement="seq", tag=rng.getrandbits(48), checksums=False)
                dsf.write_to(path)

            absw = str(subdir / pname).replace("/", "\\")
            if cfg == "relative":
                ents = [("parent_linkage", "{83ed0ec1-24c8-49a6-a959-5e4bd1288015}"), ("relative_path", rel), ("absolute_win32_path", "C:\\nowhere\\" + pname)]
            elif cfg == "absolute":
                ents = [("parent_linkage", "{83ed0ec1-24c8-49a6-a959-5e4bd1288015}"), ("relative_path", ".\\moved\\" + pname), ("absolute_win32_path", absw)]
            elif cfg == "subdir":
                ents = [("relative_path", "..\\disks\\" + pname), ("absolute_win32_path", "C:\\nowhere\\" + pname), ("parent_linkage", "{x}")]
            elif cfg == "both-decoy":
                # both paths resolve, to different files: the relative path is the one to use (the absolute one is a stale
                # location from before the folder was copied)
                stale = d / "original location" / pname
                decoy(stale)
                ents = [("parent_linkage", "{83ed0ec1-24c8-49a6-a959-5e4bd1288015}"), ("relative_path", rel), ("absolute_win32_path", str(stale).replace("/", "\\"))]
            elif cfg == "nested-decoy":
                # the parent lives in a sub-directory named by the relative path; an unrelated disk of the same name sits next to the child
                (subdir / "base é").mkdir()
                (subdir / pname).rename(subdir / "base é" / pname)
                decoy(subdir / pname)
                ents = [("parent_linkage", "{83ed0ec1-24c8-49a6-a959-5e4bd1288015}"), ("relative_path", ".\\base é\\" + pname), ("absolute_win32_path", "C:\\nowhere\\" + pname)]
            elif cfg == "missing":
                ents = [("parent_linkage", "{83ed0ec1}"), ("relative_path", ".\\gone\\" + pname), ("absolute_win32_path", "C:\\nowhere\\" + pname)]
            else:
                raise ValueError(cfg)
            rng.shuffle(ents)
            loc = wvhdx.parent_locator(ents, layout=rng.choice(["interleaved", "keys-first", "values-first", "reversed", "shuffled", "padded"]), rng=rng)
        sf, layer, meta = wvhdx.build(rng, block_size=bs, sector_size=sector_size, nblocks=n, tail_cut_sectors=tail, states=states,
                                      placement="shuffle", tag=tag, has_parent=not is_base, locator=loc, partial=partial, checksums=False,
                                      stale_offsets=False)
        sf.write_to(subdir / name)
        layers.insert(0, layer)
        names.append(name)
        size = meta["size"]
    top = subdir / names[-1]
    handles = []
    if open_mode == "path":
        v = VHDX(top)
    elif open_mode == "str":
        v = VHDX(str(top))
    else:
        fh = open(top, "rb")  # a real file object has .name, which the reader uses to locate the parent
        handles.append(fh)
        v = VHDX(fh)
    info.update({"depth": depth, "sector": sector_size, "config": parent_config, "blocks": n, "beyond_chunk": beyond_chunk})
    if interesting:
        info["hot_offsets"] = [b_ * bs for b_ in interesting]
    return Opened(v, Model(size, layers), sector_size, v.read_sectors, info=info, sector_limit=size // sector_size)


# --------------------------------------------------------------------------- VMDK


def vmdk_delta(rng, ctx, depth: int = 2, parent_config: str = "samedir", child_kind: str = "descriptor") -> Opened:
    from dissect.hypervisor.disk.vmdk import VMDK

    root = Path(ctx.tmpdir())
    vmdir = root / "vm one"
    vmdir.mkdir()
    grain = rng.choice([1, 8, 16])
    ngte = rng.choice([64, 512])
    cap = grain * rng.randrange(3, 200) + rng.randrange(0, grain)
    ngr = -(-cap // grain)
    layers = []
    prev_name = None
    prev_dir = vmdir
    info = {"depth": depth, "config": parent_config, "child_kind": child_kind}
    for level in range(depth):
        is_base = level == 0
        is_top = level == depth - 1
        tag = rng.getrandbits(48)
        name = f"disk-{level:06d}.vmdk" if not is_base else "disk.vmdk"
        here = vmdir
        cfg = parent_config if is_top else "samedir"
        if is_base and parent_config in ("sibling", "windows") and depth == 2:
            here = root / "base dir"
            here.mkdir(exist_ok=True)
        if is_base:
            kind = rng.choice(["flat", "sparse", "sesparse"])
            if kind == "flat":
                sf, layer, meta = wvmdk.build_flat(rng, nsectors=cap, tag=tag)
                sf.write_to(here / "disk-flat.vmdk")
                ext = f'RW {cap} FLAT "disk-flat.vmdk" 0'
            elif kind == "sparse":
                sf, layer, meta = wvmdk.build_hosted(rng, capacity=cap, grain=grain, ngte=ngte, placement="shuffle", tag=tag)
                sf.write_to(here / "disk-s001.vmdk")
                ext = f'RW {cap} SPARSE "disk-s001.vmdk"'
            else:
                sf, layer, meta = wvmdk.build_sesparse(rng, capacity=cap, grain=8, gt_sectors=1, placement="shuffle", tag=tag)
                sf.write_to(here / "disk-sesparse.vmdk")
                ext = f'RW {cap} SESPARSE "disk-sesparse.vmdk"'
            (here / name).write_text(wvmdk.descriptor_text([ext], cid="aaaaaaaa", create_type="vmfs"))
        else:
            st = [rng.choice("AAUUZ") for _ in range(ngr)]
            if cfg == "samedir":
                hint = prev_name
            elif cfg == "sibling":
                hint = f"/vmfs/volumes/ds1/{prev_dir.name}/{prev_name}"
            elif cfg == "windows":
                hint = f"C:\\VMs\\{prev_dir.name}\\{prev_name}"
            elif cfg == "missing":
                hint = "/vmfs/volumes/ds1/elsewhere/not-there.vmdk"
            else:
                raise ValueError(cfg)
            if is_top and child_kind == "embedded":
                desc = wvmdk.descriptor_text([f'RW {cap} SPARSE "{name}"'], cid="bbbbbbbb", parent_cid="aaaaaaaa", parent_hint=hint)
                if rng.random() < 0.4:
                    # the descriptor was rewritten in place when the snapshot was taken: behind its terminating NUL the tail of
                    # the longer text it replaced (a disk without a parent) is still there; the text ends at the NUL
                    old = wvmdk.descriptor_text([f'RW {cap} SPARSE "{name}"'], cid="aaaaaaa9", parent_cid="ffffffff", extra={"vf.note": "n" * 80})
                    old = "# " + "-" * len(desc) + "\n" + old  # (it began with a long banner)
                    desc = desc + "\0" + old[len(desc) + 1 + rng.randrange(0, 3):]
                sf, layer, meta = wvmdk.build_hosted(rng, capacity=cap, grain=grain, ngte=ngte, states=st, placement="shuffle", tag=tag, descriptor=desc)
                sf.write_to(here / name)
            elif is_top and child_kind == "multi":
                # two sparse extents; extent 2's pattern is keyed by its own local sector numbers (see _JoinLayers)
                c1 = min(cap, grain * rng.randrange(1, max(2, ngr)))
                st1 = {g: s_ for g, s_ in enumerate(st) if g < c1 // grain}
                sf1, l1, _ = wvmdk.build_hosted(rng, capacity=c1, grain=grain, ngte=ngte, states=st1, placement="shuffle", tag=tag)
                sf1.write_to(here / "d-s001.vmdk")
                rest = cap - c1
                exts = [f'RW {c1} SPARSE "d-s001.vmdk"']
                layer = l1
                if rest > 0:
                    off_g = c1 // grain
                    st2 = {g - off_g: s_ for g, s_ in enumerate(st) if g >= off_g}
                    sf2, l2, _ = wvmdk.build_hosted(rng, capacity=rest, grain=grain, ngte=ngte, states=st2, placement="shuffle", tag=tag ^ 0x77)
                    sf2.write_to(here / "d-s002.vmdk")
                    exts.append(f'RW {rest} SPARSE "d-s002.vmdk"')
                    layer = _JoinLayers(l1, l2, c1)
                (here / name).write_text(wvmdk.descriptor_text(exts, cid="bbbbbbbb", parent_cid="aaaaaaaa", parent_hint=hint))
            else:
                kind = rng.choice(["sparse", "sesparse"])
                if kind == "sparse":
                    sf, layer, meta = wvmdk.build_hosted(rng, capacity=cap, grain=grain, ngte=ngte, states=st, placement="shuffle", tag=tag)
                    en = f"disk-{level:06d}-delta.vmdk"
                    ext = f'RW {cap} SPARSE "{en}"'
                else:
                    g8 = 8
                    ngr8 = -(-cap // g8)
                    st8 = [rng.choice("AAUFZ") for _ in range(ngr8)]
                    sf, layer, meta = wvmdk.build_sesparse(rng, capacity=cap, grain=g8, gt_sectors=1, states=st8, placement="shuffle", tag=tag)
                    en = f"disk-{level:06d}-sesparse.vmdk"
                    ext = f'RW {cap} SESPARSE "{en}"'
                sf.write_to(here / en)
                (here / name).write_text(wvmdk.descriptor_text([ext], cid="bbbbbbbb", parent_cid="aaaaaaaa", parent_hint=hint, create_type="vmfsSparse"))
        layers.insert(0, layer)
        prev_name, prev_dir = name, here
    top = vmdir / prev_name
    info["top_path"] = str(top)
    if parent_config == "samedir" and rng.random() < 0.25:
        # a case directory assembled from a content store: every file below the top descriptor is a symbolic link to a blob
        # stored elsewhere under another name. Names in descriptors are relative to where the chain was found.
        store = root / "content store"
        store.mkdir()
        for j, f_ in enumerate(sorted(p_ for p_ in vmdir.iterdir() if p_.is_file() and p_ != top)):
            sub_ = store / f"{j:02d}"
            sub_.mkdir()
            blob = sub_ / f"blob-{rng.getrandbits(40):010x}"
            f_.rename(blob)
            f_.symlink_to(blob)
        info["symlink_farm"] = True
    handles = []
    if child_kind == "embedded":
        fh = open(top, "rb")
        handles.append(fh)
        v = VMDK(fh)
    else:
        v = VMDK(top if rng.random() < 0.5 else str(top))
    size = cap * SECTOR
    return Opened(v, Model(size, layers), SECTOR, v.read_sectors, info=info, sector_limit=cap)


class _JoinLayers:
    """Two layers back to back (extent 1 then extent 2) seen as one layer of the whole disk."""

    def __init__(self, a, b, first_sectors: int):
        self.a, self.b, self.n = a, b, first_sectors

    def read_sector(self, s: int):
        if s < self.n:
            return self.a.read_sector(s)
        # the second extent's pattern is keyed by its own local sector numbers
        return self.b.read_sector(s - self.n)


# --------------------------------------------------------------------------- Parallels


def hdd_snapshots(rng, ctx, depth: int = 2, top_mode: str = "default", nstorages: int = 1, base_plain: bool = False,
                  open_guid: str = "top", linked: bool = False) -> Opened:
    """linked: a linked clone - the base images stay in the bundle they were cloned from and are named by absolute paths that
    exist; the clone's own first images carry the same file names (both bundles were named alike), and they are not the base."""
    from dissect.hypervisor.disk.hdd import HDD

    top = Path(ctx.tmpdir())
    d = top / "x.hdd"
    d.mkdir()
    linked = linked and depth >= 2
    origin = top / "origin vm.pvm" / "x.hdd"
    if linked:
        origin.mkdir(parents=True)
    import uuid as _uuid

    guids = ["{" + str(_uuid.UUID(int=rng.getrandbits(128))) + "}" for _ in range(depth)]
    if top_mode == "default":
        guids[-1] = whds.DEFAULT_TOP
    shots = []
    for i, g in enumerate(guids):
        shots.append((g, guids[i - 1] if i else whds.NULL_GUID))
    rng.shuffle(shots)
    storages = []
    files = {}
    start = 0
    parts_layers = []  # per storage: list of layers top->bottom
    sizes = []
    for si in range(nstorages):
        ms = rng.choice([1, 8, 16])
        n = rng.randrange(2, 30)
        nsec = ms * n
        images = []
        layers = []
        for level, g in enumerate(guids):
            tag = rng.getrandbits(48)
            fn = f"x.hdd.{si}.{g}.hds"
            if level == 0 and base_plain:
                sf, layer, meta = wvmdk_flat(rng, nsec, tag)
                typ = "Plain"
            else:
                states = [rng.choice("AU") for _ in range(n)]
                sf, layer, meta = whds.build_hds(rng, version=rng.choice([1, 2]), m_sectors=ms, nclusters=n, states=states,
                                                 placement=rng.choice(["shuffle", "coincidence"]), tag=tag, in_use=rng.random() < 0.3)
                typ = "Compressed"
            if linked and level == 0:
                fn = f"x.hdd.{si}.hds"
                sf.write_to(origin / fn)
                images.append({"guid": g, "type": typ, "file": str(origin / fn)})
                layers.insert(0, layer)
                continue
            if linked and level == 1:
                fn = f"x.hdd.{si}.hds"
            files[fn] = sf
            images.append({"guid": g, "type": typ, "file": fn})
            layers.insert(0, layer)
        rng.shuffle(images)
        storages.append({"start": start, "end": start + nsec, "images": images})
        parts_layers.append(layers)
        sizes.append(nsec * SECTOR)
        start += nsec
    top_guid = None
    if top_mode == "explicit":
        top_guid = guids[-1]
    xml_order = list(storages)
    rng.shuffle(xml_order)  # the order of the Storage elements in the descriptor carries no meaning
    whds.write_hdd_dir(str(d), xml_order, shots, top_guid=top_guid, files=files)
    hdd = HDD(d)
    upto = depth
    if open_guid == "top":
        st = hdd.open()
    else:
        upto = rng.randrange(1, depth + 1)
        g = guids[upto - 1]
        st = hdd.open(g if rng.random() < 0.5 else g.strip("{}"))
    from vf.core import ConcatModel

    parts = [Model(sizes[si], parts_layers[si][depth - upto :]) for si in range(nstorages)]
    model = ConcatModel(parts) if nstorages > 1 else parts[0]
    op = Opened(st, model, info={"depth": depth, "opened_depth": upto, "top_mode": top_mode, "storages": nstorages, "base_plain": base_plain, "linked_clone": linked})
    # for re-opening the same HDD object: every snapshot level with its own model
    op.hdd = hdd
    op.levels = []
    for lvl in range(1, depth + 1):
        ps = [Model(sizes[si], parts_layers[si][depth - lvl :]) for si in range(nstorages)]
        op.levels.append((guids[lvl - 1], ConcatModel(ps) if nstorages > 1 else ps[0]))
    return op


def hdd_abs(rng, ctx) -> Opened:
    """Image <File> entries with absolute paths that no longer exist (a moved/copied bundle): the reader's relocation
    candidates must find the right file (same .hdd directory, a sibling .hdd directory, the original .pvm tree)."""
    from dissect.hypervisor.disk.hdd import HDD

    base = Path(ctx.tmpdir())
    variant = rng.choice(["same-hdd", "same-hdd-renamed", "sibling-hdd", "pvm", "abs-exists"])
    g = whds.DEFAULT_TOP
    sf, layer, meta = whds.build_hds(rng, version=rng.choice([1, 2]), m_sectors=8, nclusters=rng.randrange(2, 20), tag=rng.getrandbits(48), placement="shuffle")
    nsec = meta["size"] // SECTOR
    decoy, _, _ = whds.build_hds(rng, version=2, m_sectors=8, nclusters=nsec // 8, tag=rng.getrandbits(48), placement="shuffle")
    if variant == "same-hdd":
        hd = base / "vm.pvm" / "disk.hdd"
        target = hd / "img.hds"
        ref = "/other/place/x.pvm/disk.hdd/img.hds"
    elif variant == "same-hdd-renamed":
        # the bundle was copied under a new name next to the original, which still holds another image of that name
        hd = base / "vm.pvm" / "disk-backup.hdd"
        target = hd / "img.hds"
        ref = "/other/place/x.pvm/disk.hdd/img.hds"
        (base / "vm.pvm" / "disk.hdd").mkdir(parents=True)
        decoy.write_to(base / "vm.pvm" / "disk.hdd" / "img.hds")
    elif variant == "abs-exists":
        # the absolute path still exists (an image kept outside the bundle): that file is the image, whatever else of the
        # same name lies in the bundle
        hd = base / "vm.pvm" / "disk.hdd"
        target = base / "shared images" / "img.hds"
        ref = str(target)
        hd.mkdir(parents=True)
        decoy.write_to(hd / "img.hds")
    elif variant == "sibling-hdd":
        hd = base / "vm.pvm" / "disk.hdd"
        target = base / "vm.pvm" / "orig.hdd" / "img.hds"
        ref = "/elsewhere/a.pvm/orig.hdd/img.hds"
    else:
        hd = base / "clones" / "vm.pvm" / "disk.hdd"
        target = base / "clones" / "orig.pvm" / "orig.hdd" / "img.hds"
        ref = "/gone/orig.pvm/orig.hdd/img.hds"
    hd.mkdir(parents=True, exist_ok=True)
    target.parent.mkdir(parents=True, exist_ok=True)
    sf.write_to(target)
    whds.write_hdd_dir(str(hd), [{"start": 0, "end": nsec, "images": [{"guid": g, "type": "Compressed", "file": ref}]}], [(g, whds.NULL_GUID)])
    hdd = HDD(hd)
    op = Opened(hdd.open(), Model(meta["size"], [layer]), info={"variant": variant, "stored_file": ref})
    op.hdd = hdd
    return op


def wvmdk_flat(rng, nsec, tag):
    return wvmdk.build_flat(rng, nsectors=nsec, tag=tag)


# --------------------------------------------------------------------------- QCOW2


def qcow2_chain(rng, ctx, depth: int = 2, ext: bool = False, raw_base: str | None = None, optout: bool = False) -> Opened:
    from dissect.hypervisor.disk.qcow2 import ALLOW_NO_BACKING_FILE, QCow2

    cb = 14 if ext else rng.choice([9, 10, 12])
    cs = 1 << cb
    ncl = rng.randrange(2, 30)
    size = ncl * cs - rng.choice([0, SECTOR * rng.randrange(0, cs // SECTOR)])
    layers = []
    below = None
    if optout:
        raw_base = None  # opting out of the backing file means there is no base at all (reads as zeros)
    if raw_base:
        blen = {"shorter": size // 2, "ragged": max(size - rng.randrange(1, 3 * cs), 0) + rng.randrange(0, SECTOR), "longer": size + cs}[raw_base]
        braw = hashlib.shake_128(rng.getrandbits(64).to_bytes(8, "little")).digest(min(blen, 1 << 21))
        braw = (braw * (blen // max(len(braw), 1) + 1))[:blen]
        below = as_handle(braw)
        layers.append(RawLayer(braw))
    top_size, top_ncl = size, ncl
    short_levels = 0
    for level in range(depth):
        size, ncl = top_size, top_ncl
        if level < depth - 1 and top_size > 2 * SECTOR and rng.random() < 0.3:
            # a backing image that is shorter than the image on top of it (the disk was grown later), its size not a multiple
            # of the cluster size: what its last cluster stores beyond its size is not part of it - above, that range reads
            # as zeros
            size = max(SECTOR, top_size - SECTOR * rng.randrange(1, max(2, min(top_size // SECTOR, 3 * cs // SECTOR))))
            ncl = -(-size // cs)
            short_levels += 1
        alpha = "NZUUCSSuu" if ext else "NZzUUC"
        kinds = [rng.choice(alpha) for _ in range(ncl)]
        if size < top_size and kinds[-1] not in "NS":
            kinds[-1] = "S" if ext else "N"
        view = wq.make_view(rng, size=size, cluster_bits=cb, kinds=kinds, extl2=ext, tag=rng.getrandbits(48))
        has_below = below is not None or (optout and level == 0)
        # some layers keep their clusters in an external data file (with or without the optional name extension)
        external = rng.random() < 0.3
        if external:
            # raw layout: guest cluster g at data-file offset g * cluster size (so guest cluster 0 sits at offset 0)
            if kinds[0] not in "NS":
                kinds[0] = "S" if ext else "N"
                view = wq.make_view(rng, size=size, cluster_bits=cb, kinds=kinds, extl2=ext, tag=rng.getrandbits(48))
        img, dataf, meta = wq.build(rng, cluster_bits=cb, size=size, views=[view], version=3, extl2=ext, placement="seq" if external else "shuffle",
                                    backing_name=(b"lower.qcow2" if has_below else None), tuned_frac=0.1, external_data=external,
                                    data_file_name=(b"layer.raw" if external and rng.random() < 0.5 else None))
        backing = below
        if optout and level == 0:
            backing = ALLOW_NO_BACKING_FILE
        q = QCow2(as_handle(img.to_bytes()), backing_file=backing, data_file=as_handle(dataf.to_bytes()) if external else None)
        layers.insert(0, view.layer)
        if size < top_size:
            layers.insert(0, EndBarrier(size))
        below = q
    return Opened(below, Model(top_size, layers), info={"depth": depth, "ext": ext, "raw_base": raw_base, "optout": optout, "cb": cb, "short_levels": short_levels})


class EndBarrier:
    """Sits on top of a layer that is shorter than the image above it: beyond that layer's end nothing below is visible."""

    def __init__(self, size: int):
        self.size = size

    def read_sector(self, sector: int):
        return b"\x00" * SECTOR if sector * SECTOR >= self.size else None


def qcow2_snapshots(rng, ctx, nsnap: int = 2, ext: bool = False):
    """-> (QCow2 active, [Model per view: active first], views)"""
    from dissect.hypervisor.disk.qcow2 import QCow2

    cb = 14 if ext else rng.choice([9, 10])
    cs = 1 << cb
    ncl = rng.randrange(2, 40)
    if not ext and rng.random() < 0.5:
        ncl = rng.randrange(70, 400)  # several L2 tables, so that a snapshot's L1 table can be shorter than the active one
    size = ncl * cs
    views = []
    for i in range(nsnap + 1):
        kinds = [rng.choice("NZUCSu" if ext else "NZzUC") for _ in range(ncl)]
        if i > 0 and rng.random() < (0.7 if ncl >= 70 else 0.4):
            # a snapshot from when the disk was smaller: nothing mapped in the tail
            cut = rng.randrange(1, ncl // 2 if ncl >= 70 else ncl + 1)
            kinds = kinds[:cut] + ["U"] * (ncl - cut)
        views.append(wq.make_view(rng, size=size, cluster_bits=cb, kinds=kinds, extl2=ext, tag=rng.getrandbits(48)))
    metas = [{"id": str(i + 1).encode(), "name": f"snap {i}".encode() * rng.randrange(1, 3), "extra_size": rng.choice([0, 16, 24, 32, 40])} for i in range(nsnap)]
    # some images name a backing file that the caller explicitly opts out of: the active image and every snapshot view
    # then read zeros below their own clusters
    optout = rng.random() < 0.3
    backed = not optout and rng.random() < (0.8 if ncl >= 70 else 0.4)
    img, _, meta = wq.build(rng, cluster_bits=cb, size=size, views=views, version=3, extl2=ext, placement="shuffle", snapshots_meta=metas, tuned_frac=0.1,
                            backing_name=b"base image.qcow2" if (optout or backed) else None, snap_short_l1=rng.random() < 0.7)
    below = []
    if optout:
        from dissect.hypervisor.disk.qcow2 import ALLOW_NO_BACKING_FILE

        q = QCow2(as_handle(img.to_bytes()), backing_file=ALLOW_NO_BACKING_FILE)
    elif backed:
        # the image has a (raw) backing file: whatever a view does not map itself - including everything beyond the end
        # of a snapshot's shorter L1 table - comes from there
        braw = hashlib.shake_128(rng.getrandbits(64).to_bytes(8, "little")).digest(size)
        q = QCow2(as_handle(img.to_bytes()), backing_file=as_handle(braw))
        below = [RawLayer(braw)]
    else:
        q = QCow2(as_handle(img.to_bytes()))
    return q, [Model(size, [v.layer] + below) for v in views], size


# --------------------------------------------------------------------------- VDI


def vdi_parent(rng, ctx, depth: int = 2) -> Opened:
    from dissect.hypervisor.disk.vdi import VDI

    bs = rng.choice([512, 4096, 65536])
    n = rng.randrange(2, 30 if bs <= 4096 else 8)
    layers = []
    lower = []
    below = None
    size = None
    for level in range(depth):
        states = None
        lbs, ln = bs, n
        if level == 0 and rng.random() < 0.4:
            lbs = 512  # the base may use a different block size than its children
            ln = n * bs // lbs
        elif level < depth - 1 and rng.random() < 0.35:
            # ... or a larger one: an absent block of the child then lies somewhere in the middle of a block of this layer
            lbs = bs * rng.choice([2, 4, 16])
            ln = -(-n * bs // lbs)
            states = [rng.choice("AAUZ" if level == 0 else "AUZ") for _ in range(ln)]
        else:
            states = [rng.choice("AUZ" if level else "AAUZ") for _ in range(n)]
        sf, layer, meta = wvdi.build(rng, block_size=lbs, nblocks=ln, states=states, placement="shuffle", tag=rng.getrandbits(48))
        size = meta["size"]  # the disk is as large as its topmost image says
        v = VDI(as_handle(sf.to_bytes()), parent=below) if below is not None else VDI(as_handle(sf.to_bytes()))
        layers.insert(0, layer)
        if below is not None:
            lower.append(below)
        below = v
    op = Opened(below, Model(size, layers), info={"depth": depth, "block_size": bs})
    # the ancestors are stream objects the caller created and still holds: each is left at a position of the caller's choosing,
    # which reading the child has no business changing
    op.lower = []
    for anc in lower:
        p_ = rng.randrange(0, max(1, anc.size))
        anc.seek(p_)
        op.lower.append((anc, p_))
    return op


def open_chain(kind: str, rng, ctx) -> Opened:
    """Random representative of each layered stream kind (used by the history check)."""
    if kind == "vhdx-diff":
        return vhdx_diff(rng, ctx, depth=rng.choice([2, 3]), sector_size=512, parent_config=rng.choice(["relative", "absolute", "subdir", "both-decoy", "nested-decoy"]))
    if kind == "vmdk-delta":
        return vmdk_delta(rng, ctx, depth=rng.choice([2, 3]), parent_config=rng.choice(["samedir", "sibling", "windows"]),
                          child_kind=rng.choice(["descriptor", "embedded", "multi"]))
    if kind == "hdd-snapshots":
        return hdd_snapshots(rng, ctx, depth=rng.choice([2, 3]), top_mode=rng.choice(["default", "explicit"]), nstorages=rng.choice([1, 2]),
                             base_plain=rng.random() < 0.3)
    if kind == "qcow2-chain":
        return qcow2_chain(rng, ctx, depth=rng.choice([2, 3]), ext=rng.random() < 0.4, raw_base=rng.choice([None, "shorter", "ragged"]))
    if kind == "vdi-parent":
        return vdi_parent(rng, ctx, depth=rng.choice([2, 3]))
    raise ValueError(kind)
