"""Shared machinery: deterministic rng, content model, sparse backing files, observing proxies.

Nothing in here imports the repository under test.
"""
from __future__ import annotations

import bisect
import hashlib
import io
import weakref
import random
import struct
import sys
from functools import lru_cache

SECTOR = 512


# --------------------------------------------------------------------------- rng


def rng_for(*parts) -> random.Random:
    """A PRNG fully determined by the given parts (seed/check/case...)."""
    return random.Random("/".join(str(p) for p in parts))


def stable_hash(obj) -> str:
    return hashlib.blake2b(repr(obj).encode(), digest_size=8).hexdigest()


# --------------------------------------------------------------------------- pattern


@lru_cache(maxsize=1 << 16)
def sector_bytes(tag: int, lsn: int, kind: int = 0) -> bytes:
    """The 512 bytes a data sector with logical sector number `lsn` holds in layer `tag`.

    kind 0: 512 pseudo-random bytes (different in every sector, at every byte offset).
    kind 1: compressible (a 16-byte word repeated), still different in every sector.
    """
    key = struct.pack("<QQ", tag & 0xFFFFFFFFFFFFFFFF, lsn)
    if kind == 0:
        return hashlib.shake_128(key).digest(SECTOR)
    return hashlib.blake2b(key, digest_size=16).digest() * 32


GARBAGE = 0x6A7B000000000000  # xor'ed into the tag for bytes that must never be served


# --------------------------------------------------------------------------- content model

T, Z, D = 0, 1, 2  # transparent (falls through to the parent / zeros), zero, data


class Layer:
    """One image layer seen as a map logical 512-byte sector -> T | Z | D.

    `unit_sectors` is the allocation unit; `units[u]` is a uniform state (int) or a tuple
    ("P", sub_sectors, bytes(states per sub-unit)) for partially allocated units.
    """

    def __init__(self, size: int, unit_sectors: int, tag: int, kind: int = 0, default: int = T):
        self.size = size
        self.unit_sectors = unit_sectors
        self.tag = tag
        self.kind = kind
        self.default = default
        self.units: dict[int, object] = {}
        self.zero_phys = False  # store zeros (not garbage) for non-data sectors inside allocated units
        self.override: dict[int, bytes] = {}  # sector -> explicit 512 bytes for data sectors (tuned content)

    @property
    def nunits(self) -> int:
        return -(-self.size // (self.unit_sectors * SECTOR))

    def state(self, sector: int) -> int:
        u, off = divmod(sector, self.unit_sectors)
        st = self.units.get(u, self.default)
        if isinstance(st, int):
            return st
        _, sub, codes = st
        return codes[off // sub]

    def unit_state(self, unit: int):
        return self.units.get(unit, self.default)

    def read_sector(self, sector: int) -> bytes | None:
        st = self.state(sector)
        if st == D:
            if self.override and sector in self.override:
                return self.override[sector]
            return sector_bytes(self.tag, sector, self.kind)
        if st == Z:
            return b"\x00" * SECTOR
        return None

    def phys_sector(self, sector: int) -> bytes:
        """What a writer stores on disk for this sector inside an allocated unit."""
        if self.state(sector) == D:
            if self.override and sector in self.override:
                return self.override[sector]
            return sector_bytes(self.tag, sector, self.kind)
        if self.zero_phys:
            return b"\x00" * SECTOR
        return sector_bytes(self.tag ^ GARBAGE, sector, self.kind)

    def phys_bytes(self, first_sector: int, nsectors: int) -> bytes:
        return b"".join(self.phys_sector(s) for s in range(first_sector, first_sector + nsectors))


class RawLayer:
    """A layer that is a plain byte source (raw backing file); shorter than the image => zeros."""

    def __init__(self, src):
        self.src = src  # bytes or an object with read_at(off, n)

    def read_sector(self, sector: int) -> bytes:
        off = sector * SECTOR
        if isinstance(self.src, (bytes, bytearray)):
            b = bytes(self.src[off : off + SECTOR])
        else:
            b = self.src.read_at(off, SECTOR)
        return b.ljust(SECTOR, b"\x00")


class Model:
    """Ground truth: layers top -> bottom over an implicit sea of zeros."""

    def __init__(self, size: int, layers: list):
        self.size = size
        self.layers = layers

    def sector(self, s: int) -> bytes:
        for layer in self.layers:
            b = layer.read_sector(s)
            if b is not None:
                return b
        return b"\x00" * SECTOR

    def source(self, s: int) -> int:
        """Index of the layer that serves sector s (len(layers) == zeros below the base)."""
        for i, layer in enumerate(self.layers):
            if layer.read_sector(s) is not None:
                return i
        return len(self.layers)

    def expected(self, off: int, n: int) -> bytes:
        if off >= self.size or n <= 0:
            return b""
        n = min(n, self.size - off)
        s0 = off // SECTOR
        s1 = (off + n + SECTOR - 1) // SECTOR
        buf = b"".join(self.sector(s) for s in range(s0, s1))
        skip = off - s0 * SECTOR
        return buf[skip : skip + n]


class ConcatModel:
    """Concatenation of models (multi-extent disks)."""

    def __init__(self, parts: list):
        self.parts = parts
        self.starts = []
        pos = 0
        for p in parts:
            self.starts.append(pos)
            pos += p.size
        self.size = pos

    def expected(self, off: int, n: int) -> bytes:
        if off >= self.size or n <= 0:
            return b""
        n = min(n, self.size - off)
        out = []
        i = bisect.bisect_right(self.starts, off) - 1
        while n > 0 and i < len(self.parts):
            rel = off - self.starts[i]
            take = min(n, self.parts[i].size - rel)
            if take > 0:
                out.append(self.parts[i].expected(rel, take))
                off += take
                n -= take
            i += 1
        return b"".join(out)


class BytesModel:
    def __init__(self, data: bytes):
        self.data = data
        self.size = len(data)

    def expected(self, off: int, n: int) -> bytes:
        if n <= 0:
            return b""
        return self.data[off : off + n]


# --------------------------------------------------------------------------- sparse backing


class PatternGen:
    """Lazy extent content: physical bytes of `nsectors` sectors of a layer starting at `first`."""

    def __init__(self, layer: Layer, first: int, nsectors: int):
        self.layer = layer
        self.first = first
        self.length = nsectors * SECTOR

    def read(self, rel: int, n: int) -> bytes:
        s0 = rel // SECTOR
        s1 = (rel + n + SECTOR - 1) // SECTOR
        buf = self.layer.phys_bytes(self.first + s0, s1 - s0)
        skip = rel - s0 * SECTOR
        return buf[skip : skip + n]


class SparseFile:
    """Sorted, non-overlapping extents over an implicit sea of zeros, with an explicit size."""

    def __init__(self, size: int | None = None):
        self._offs: list[int] = []
        self._ext: list[tuple[int, int, object]] = []  # (off, length, bytes | gen)
        self.size = size

    def put(self, off: int, data, length: int | None = None) -> None:
        if length is None:
            length = len(data) if isinstance(data, (bytes, bytearray)) else data.length
        if length == 0:
            return
        if isinstance(data, bytearray):
            data = bytes(data)
        i = bisect.bisect_right(self._offs, off)
        if i > 0:
            po, pl, _ = self._ext[i - 1]
            if po + pl > off:
                raise AssertionError(f"writer bug: extent at {off:#x}+{length:#x} overlaps {po:#x}+{pl:#x}")
        if i < len(self._ext) and self._ext[i][0] < off + length:
            raise AssertionError(f"writer bug: extent at {off:#x}+{length:#x} overlaps next {self._ext[i][0]:#x}")
        self._offs.insert(i, off)
        self._ext.insert(i, (off, length, data))

    def patch(self, off: int, data: bytes) -> None:
        """Overwrite bytes inside one existing bytes extent (or add a new extent in a hole)."""
        i = bisect.bisect_right(self._offs, off) - 1
        if i >= 0:
            eo, el, ed = self._ext[i]
            if eo <= off < eo + el:
                if off + len(data) > eo + el or not isinstance(ed, bytes):
                    raise AssertionError("patch must stay inside one bytes extent")
                b = bytearray(ed)
                b[off - eo : off - eo + len(data)] = data
                self._ext[i] = (eo, el, bytes(b))
                return
        self.put(off, data)

    @property
    def end(self) -> int:
        if self.size is not None:
            return self.size
        if not self._ext:
            return 0
        o, l, _ = self._ext[-1]
        return o + l

    def stored_bytes(self) -> int:
        return sum(l for _, l, _ in self._ext)

    def read_at(self, off: int, n: int) -> bytes:
        end = self.end
        if off >= end or n <= 0:
            return b""
        n = min(n, end - off)
        out = []
        pos = off
        stop = off + n
        i = max(bisect.bisect_right(self._offs, off) - 1, 0)
        while pos < stop and i < len(self._ext):
            eo, el, ed = self._ext[i]
            if eo + el <= pos:
                i += 1
                continue
            if eo >= stop:
                break
            if eo > pos:
                out.append(b"\x00" * (eo - pos))
                pos = eo
            rel = pos - eo
            take = min(stop - pos, el - rel)
            if isinstance(ed, bytes):
                out.append(ed[rel : rel + take])
            else:
                out.append(ed.read(rel, take))
            pos += take
            i += 1
        if pos < stop:
            out.append(b"\x00" * (stop - pos))
        return b"".join(out)

    def to_bytes(self, limit: int = 1 << 28) -> bytes:
        if self.end > limit:
            raise AssertionError(f"refusing to materialise {self.end} bytes")
        return self.read_at(0, self.end)

    def write_to(self, path) -> None:
        """Write as a (sparse) real file."""
        with open(path, "wb") as fh:
            for eo, el, ed in self._ext:
                fh.seek(eo)
                pos = 0
                while pos < el:
                    take = min(1 << 20, el - pos)
                    fh.write(ed[pos : pos + take] if isinstance(ed, bytes) else ed.read(pos, take))
                    pos += take
            fh.truncate(self.end)

    def open(self) -> "SparseHandle":
        return SparseHandle(self)


class SparseHandle:
    """Minimal binary file object over a SparseFile."""

    def __init__(self, sf: SparseFile):
        self.sf = sf
        self.pos = 0
        self.closed = False

    def read(self, n: int = -1) -> bytes:
        if n is None or n < 0:
            n = max(self.sf.end - self.pos, 0)
        b = self.sf.read_at(self.pos, n)
        self.pos += len(b)
        return b

    def readinto(self, b) -> int:
        data = self.read(len(b))
        b[: len(data)] = data
        return len(data)

    def seek(self, off: int, whence: int = 0) -> int:
        if whence == 0:
            new = off
        elif whence == 1:
            new = self.pos + off
        elif whence == 2:
            new = self.sf.end + off
        else:
            raise ValueError("whence")
        if new < 0:
            raise OSError(22, "Invalid argument")
        self.pos = new
        return new

    def tell(self) -> int:
        return self.pos

    def readable(self) -> bool:
        return True

    def seekable(self) -> bool:
        return True

    def writable(self) -> bool:
        return False

    def close(self) -> None:
        self.closed = True


# --------------------------------------------------------------------------- observing proxy


RAW_TRANSFER_LIMIT = 0x7000  # stands in for the kernel's 0x7ffff000 bytes per read(2)


class OpenInterposer:
    """While installed, binary read-only files that *repository code* opens by path come back wrapped in a ProxyFile: the
    monitors that work on caller-supplied handles (fault injection, moving the handle between reads, call logs) then also reach
    descriptor-named extents, parents located through locators and bundle images. Everything else opens as usual."""

    def __init__(self, repo_mark: str = "/dissect/hypervisor/"):
        self.repo_mark = repo_mark
        self.wrapped = 0
        self.raw_opens = 0
        self._orig = None

    def _from_repo(self) -> bool:
        f = sys._getframe(2)
        depth = 0
        while f is not None and depth < 6:
            fn = f.f_code.co_filename
            if self.repo_mark in fn:
                return True
            if "/pathlib" not in fn and "/verif/vf/core.py" not in fn:
                return False
            f = f.f_back
            depth += 1
        return False

    def install(self):
        import builtins

        self._orig = io.open
        orig = self._orig
        me = self

        def opener(file, mode="r", *a, **kw):
            fh = orig(file, mode, *a, **kw)
            try:
                if "b" in mode and "r" in mode and "+" not in mode and not isinstance(file, int) and me._from_repo():
                    p = ProxyFile(fh, name=getattr(fh, "name", str(file)))
                    p.owned_by_library = True
                    if isinstance(fh, io.RawIOBase):
                        p.raw_limit = RAW_TRANSFER_LIMIT
                        me.raw_opens += 1
                    ALL_PROXIES.remove(p)
                    me.wrapped += 1
                    return p
            except Exception:  # noqa: BLE001
                pass
            return fh

        io.open = opener
        builtins.open = opener
        return self

    def remove(self):
        import builtins

        if self._orig is not None:
            io.open = self._orig
            builtins.open = self._orig
            self._orig = None


class BudgetExceeded(BaseException):
    """I/O budget of a ProxyFile exceeded (BaseException so the code under test cannot swallow it)."""


SEEN_STREAMS: list = []  # stream objects the contracts saw during the case (worker closes them, then checks the caller's handles)
LIVE_PROXIES: list = []  # weak references to the proxies handed out in the current case
ALL_PROXIES: list = []  # the same proxies, strongly held until the case is over (to see who closed them)


def disturb_handles(rng) -> int:
    """Another user of the same handles (the caller, a second object built on the same file object) moves them:
    every live proxy's backing handle is left at a random position. -> number of handles moved."""
    moved = 0
    for ref in list(LIVE_PROXIES):
        p = ref()
        if p is None:
            LIVE_PROXIES.remove(ref)
            continue
        if p._size is None or getattr(p._fh, "closed", False):
            continue
        try:
            p._fh.seek(rng.randrange(0, p._size + 1))
            moved += 1
        except Exception:
            pass
    return moved


# injected backend fault: the n-th backend read from now on (any proxy) either raises EIO or comes back short
FAULT = {"countdown": None, "fired": 0, "mode": "eio"}


def arm_fault(n: int | None, mode: str = "eio") -> None:
    FAULT["countdown"] = n
    FAULT["mode"] = mode


def _maybe_fault(n: int | None = None) -> str | None:
    """-> None (no fault now) | 'short' / 'empty' (the caller returns a short/empty result); raises for mode 'eio'.

    What a reader returns for a read during which the backend came back short is not judged (a regular file is short
    only at its end); what it *keeps* is: see diskcheck.fault_retry_reads."""
    c = FAULT["countdown"]
    if c is None:
        return None
    if c <= 1:
        FAULT["countdown"] = None
        FAULT["fired"] += 1
        if FAULT["mode"] == "eio":
            raise OSError(5, "Input/output error (injected by the harness)")
        return FAULT["mode"]
    FAULT["countdown"] = c - 1
    return None


class ProxyFile:
    """Wraps a binary handle given to the code under test and records what is done to it."""

    MUTATORS = ("write", "writelines", "truncate")

    def __init__(self, fh, name: str | None = None, budget: int | None = None, log_calls: bool = False, claims_writable: bool = False):
        self._fh = fh
        self.claims_writable = claims_writable  # answer writable() with True (like BytesIO / "r+b" handles do)
        if name:
            self.name = name
        self.budget = budget
        self.raw_limit = None
        self.raw_limited_reads = 0
        self.bytes_read = 0
        self.reads = 0
        self.seeks = 0
        self.max_off = 0
        self.past_end_reads = 0
        self.mutations: list[tuple] = []
        self.closed_by_callee = False
        self.calls: list[tuple] | None = [] if log_calls else None
        self.budget_tripped = False
        LIVE_PROXIES.append(weakref.ref(self))
        ALL_PROXIES.append(self)
        try:
            pos = fh.tell()
            fh.seek(0, 2)
            self._size = fh.tell()
            fh.seek(pos)
        except Exception:
            self._size = None

    # reading
    def _account(self, pos: int, req: int, got: int) -> None:
        self.reads += 1
        self.bytes_read += got
        if got:
            self.max_off = max(self.max_off, pos + got)
        if self._size is not None and req > 0 and pos + req > self._size:
            self.past_end_reads += 1
        if self.calls is not None:
            self.calls.append(("read", pos, req, got))
        if self.budget is not None and self.bytes_read > self.budget:
            self.budget_tripped = True
            raise BudgetExceeded(f"read budget {self.budget} exceeded at offset {pos:#x} (+{req})")

    def read(self, n: int = -1) -> bytes:
        fault = _maybe_fault(n)
        if fault == "empty":
            return b""
        if fault == "short" and n is not None and n > 1:
            n = n // 2
        if self.raw_limit is not None and n is not None and n > self.raw_limit:
            # a raw (unbuffered) file transfers at most so much per call - on Linux 0x7ffff000 bytes; scaled down here so
            # that ordinary request sizes reach it. Only handles the code under test itself opened unbuffered get a limit.
            n = self.raw_limit
            self.raw_limited_reads += 1
        pos = self._fh.tell()
        if (n is None or n < 0) and self.budget is not None and self._size is not None:
            if self._size - pos > self.budget:
                self.budget_tripped = True
                raise BudgetExceeded(f"read-to-end of {self._size - pos} bytes at {pos:#x} exceeds budget")
        if n is not None and n >= 0 and self.budget is not None and n > 4 * self.budget + (1 << 20):
            # never materialise absurd requests on sparse backings
            avail = (self._size - pos) if self._size is not None else n
            if min(n, avail) > 4 * self.budget + (1 << 20):
                self.budget_tripped = True
                raise BudgetExceeded(f"single read of {n} bytes at {pos:#x} exceeds budget")
        b = self._fh.read(n)
        self._account(pos, -1 if (n is None or n < 0) else n, len(b))
        return b

    def readinto(self, buf) -> int:
        if _maybe_fault(len(buf)) is not None:
            return 0
        pos = self._fh.tell()
        data = self._fh.read(len(buf))
        buf[: len(data)] = data
        self._account(pos, len(buf), len(data))
        return len(data)

    def seek(self, off: int, whence: int = 0) -> int:
        self.seeks += 1
        r = self._fh.seek(off, whence)
        if self.calls is not None:
            self.calls.append(("seek", off, whence))
        return r

    def tell(self) -> int:
        return self._fh.tell()

    def readable(self) -> bool:
        return True

    def seekable(self) -> bool:
        return True

    def writable(self) -> bool:
        return self.claims_writable

    def fileno(self):
        raise io.UnsupportedOperation("fileno")

    def close(self) -> None:
        if getattr(self, "owned_by_library", False):
            # a file the library opened itself (through the open() interposer): closing it is the library's business
            self._really_closed = True
            self._fh.close()
            return
        self.closed_by_callee = True
        try:
            f = sys._getframe(1)
            self.closed_from = f"{f.f_code.co_filename.rsplit('/', 3)[-1]}:{f.f_lineno} {f.f_code.co_name}"
        except Exception:  # noqa: BLE001
            self.closed_from = "?"

    @property
    def closed(self) -> bool:
        return getattr(self, "_really_closed", False)

    def __enter__(self):
        return self

    def __exit__(self, *a):
        self.close()

    # mutation attempts are recorded and refused
    def write(self, data):
        self.mutations.append(("write", self._fh.tell(), len(data)))
        raise io.UnsupportedOperation("write on read-only evidence handle")

    def writelines(self, lines):
        self.mutations.append(("writelines", self._fh.tell()))
        raise io.UnsupportedOperation("writelines on read-only evidence handle")

    def truncate(self, size=None):
        self.mutations.append(("truncate", size))
        raise io.UnsupportedOperation("truncate on read-only evidence handle")

    def flush(self):
        return None

    def stats(self) -> dict:
        return {
            "bytes_read": self.bytes_read,
            "reads": self.reads,
            "seeks": self.seeks,
            "max_off": self.max_off,
            "past_end_reads": self.past_end_reads,
            "mutations": len(self.mutations),
            "closed_by_callee": self.closed_by_callee,
        }


_HANDLE_COUNTER = [0]


def as_handle(backing, *, proxy: bool = True, name: str | None = None, budget: int | None = None, log_calls=False, claims_writable=None):
    """bytes | SparseFile -> a (proxied) binary handle.

    Every other proxy answers writable() with True (as BytesIO and "r+b" handles do): code that writes to a
    handle 'because it can' is then seen by the mutation monitor in every workload.
    """
    if claims_writable is None:
        _HANDLE_COUNTER[0] += 1
        claims_writable = _HANDLE_COUNTER[0] % 2 == 0
        if name is None and _HANDLE_COUNTER[0] % 3 == 0:
            # like a real file object the caller opened: it has a name, and it is still the caller's
            name = f"/vf-no-such-dir/caller-owned-{_HANDLE_COUNTER[0]}.img"
    if isinstance(backing, (bytes, bytearray)):
        fh = io.BytesIO(bytes(backing))
    elif isinstance(backing, SparseFile):
        fh = backing.open()
    else:
        fh = backing
    if proxy:
        return ProxyFile(fh, name=name, budget=budget, log_calls=log_calls, claims_writable=claims_writable)
    return fh


# --------------------------------------------------------------------------- placement


class Placer:
    """Assigns file offsets to items according to a placement strategy.

    add(key, length, align) registers an item; layout(strategy) -> {key: offset}.
    Strategies: seq (registration order), rev, shuffle, runs (shuffled groups of consecutive
    items, adjacency kept inside a group), far (a random subset moved beyond `far_base`).
    """

    def __init__(self, start: int, rng: random.Random):
        self.start = start
        self.rng = rng
        self.items: list[tuple[object, int, int]] = []

    def add(self, key, length: int, align: int) -> None:
        self.items.append((key, length, align))

    def layout(self, strategy: str = "seq", gap_prob: float = 0.0, far_base: int = 0, far_frac: float = 0.0) -> dict:
        items = list(self.items)
        rng = self.rng
        if strategy == "rev":
            items.reverse()
        elif strategy == "shuffle":
            rng.shuffle(items)
        elif strategy == "runs":
            groups, cur = [], []
            for it in items:
                cur.append(it)
                if rng.random() < 0.35:
                    groups.append(cur)
                    cur = []
            if cur:
                groups.append(cur)
            rng.shuffle(groups)
            items = [it for g in groups for it in g]
        elif strategy == "revruns":
            # descending adjacency: physically adjacent but logically reversed
            groups, cur = [], []
            for it in items:
                cur.append(it)
                if rng.random() < 0.35:
                    groups.append(list(reversed(cur)))
                    cur = []
            if cur:
                groups.append(list(reversed(cur)))
            rng.shuffle(groups)
            items = [it for g in groups for it in g]
        out = {}
        pos = self.start
        far_pos = far_base
        for key, length, align in items:
            if far_base and rng.random() < far_frac:
                far_pos = -(-far_pos // align) * align
                if rng.random() < 0.5:
                    far_pos += align * rng.randrange(1, 1 << 12)
                out[key] = far_pos
                far_pos += length
                continue
            pos = -(-pos // align) * align
            if gap_prob and rng.random() < gap_prob:
                pos += align * rng.randrange(1, 4)
            out[key] = pos
            pos += length
        self.end = max(pos, far_pos if far_base else 0)
        return out
