"""Interpreter-level monitors: audit events, logical step clock, inflate shims, memory peak."""
from __future__ import annotations

import gc
import os
import sys
import traceback
import time
import tracemalloc
import types

REPO_MARK = os.sep + os.path.join("dissect", "hypervisor") + os.sep


class StepBudgetExceeded(BaseException):
    """Raised from the monitoring callback when a case used more logical steps than its budget."""


def repo_frame_site(skip: int = 1) -> str | None:
    """'file.py:lineno:function' of the innermost frame inside dissect/hypervisor, if any."""
    f = sys._getframe(skip)
    while f is not None:
        fn = f.f_code.co_filename
        if REPO_MARK in fn:
            return f"{fn.split(REPO_MARK, 1)[1]}:{f.f_lineno}:{f.f_code.co_name}"
        f = f.f_back
    return None


# --------------------------------------------------------------------------- audit monitor

WRITE_FLAGS = os.O_WRONLY | os.O_RDWR | os.O_APPEND | os.O_CREAT | os.O_TRUNC
MUTATING_EVENTS = {
    "os.remove", "os.rename", "os.truncate", "os.mkdir", "os.rmdir", "os.chmod", "os.chown", "os.utime",
    "os.link", "os.symlink", "os.chflags", "os.removexattr", "os.setxattr",
    "shutil.rmtree", "shutil.move", "shutil.copyfile", "shutil.copytree", "shutil.copymode", "shutil.copystat",
    "shutil.chown", "shutil.make_archive", "shutil.unpack_archive", "tempfile.mkstemp", "tempfile.mkdtemp",
}
NETWORK_EVENTS = {
    "socket.connect", "socket.getaddrinfo", "socket.__new__", "socket.bind", "socket.gethostbyname",
    "socket.sendto", "socket.sendmsg", "urllib.Request", "http.client.connect", "ftplib.connect",
    "subprocess.Popen", "os.system", "os.exec", "os.posix_spawn", "os.fork",
}


class AuditMonitor:
    """Records file-open, mutating and network audit events attributed to repository frames.

    The hook cannot be removed once installed; `enabled` gates recording.
    """

    _installed = None

    def __init__(self):
        self.enabled = False
        self.opens: list[dict] = []       # opens from repo frames
        self.writes: list[dict] = []      # write-class events from repo frames
        self.network: list[dict] = []     # network/process events while enabled (any frame below a repo frame)
        self.all_opens = 0
        self.allow_write_paths: set[str] = set()

    @classmethod
    def install(cls) -> "AuditMonitor":
        if cls._installed is None:
            cls._installed = cls()
            sys.addaudithook(cls._installed._hook)
        return cls._installed

    def reset(self) -> None:
        self.opens.clear()
        self.writes.clear()
        self.network.clear()
        self.all_opens = 0
        self.allow_write_paths = set()

    def _hook(self, event: str, args) -> None:
        if not self.enabled:
            return
        if event == "open":
            self.all_opens += 1
            site = repo_frame_site(2)
            if site is None:
                return
            path, mode, flags = (list(args) + [None, None, None])[:3]
            rec = {"site": site, "path": str(path), "mode": mode, "flags": flags}
            self.opens.append(rec)
            writing = False
            if isinstance(flags, int) and flags & WRITE_FLAGS:
                writing = True
            if isinstance(mode, str) and any(c in mode for c in "wax+"):
                writing = True
            if writing and str(path) not in self.allow_write_paths:
                self.writes.append({"event": "open-for-write", **rec})
        elif event in MUTATING_EVENTS:
            site = repo_frame_site(2)
            if site is not None:
                self.writes.append({"event": event, "site": site, "args": repr(args)[:200]})
        elif event in NETWORK_EVENTS:
            site = repo_frame_site(2)
            if site is not None:
                self.network.append({"event": event, "site": site, "args": repr(args)[:200]})


# --------------------------------------------------------------------------- step monitor


def _walk_code(co: types.CodeType, out: list) -> None:
    out.append(co)
    for c in co.co_consts:
        if isinstance(c, types.CodeType):
            _walk_code(c, out)


def repo_code_objects(prefixes: tuple[str, ...]) -> list[types.CodeType]:
    """All live code objects whose file lies under one of `prefixes`."""
    seen: dict[int, types.CodeType] = {}
    for o in gc.get_objects():
        co = None
        if isinstance(o, types.FunctionType):
            co = o.__code__
        elif isinstance(o, types.CodeType):
            co = o
        if co is None or not co.co_filename.startswith(prefixes):
            continue
        lst: list = []
        _walk_code(co, lst)
        for c in lst:
            seen[id(c)] = c
    return list(seen.values())


class StepMonitor:
    """Logical clock: counts LINE events in the instrumented code objects; enforces a budget.

    A second tool records line coverage with one-shot (DISABLE) callbacks.
    """

    TOOL_COUNT = 3
    TOOL_COVER = 4

    def __init__(self, prefixes: tuple[str, ...], coverage: bool = True):
        self.prefixes = prefixes
        self.steps = 0
        self.budget = None
        self.lines: set[tuple[str, int]] = set()
        self.tripped_stack: str | None = None
        self.failpoint = None
        self.failpoint_fired_at: str | None = None
        self.cpu_budget = None
        self.cpu0 = 0.0
        self.mem_budget = None
        self.mem_probe = None
        self._mon = sys.monitoring
        self._active = False
        self._coverage = coverage
        self.ncodes = 0

    def start(self) -> None:
        mon = self._mon
        mon.use_tool_id(self.TOOL_COUNT, "vf-steps")
        mon.register_callback(self.TOOL_COUNT, mon.events.LINE, self._on_line)
        if self._coverage:
            mon.use_tool_id(self.TOOL_COVER, "vf-cover")
            mon.register_callback(self.TOOL_COVER, mon.events.LINE, self._on_cover)
        self.instrument()
        self._active = True

    def instrument(self) -> None:
        mon = self._mon
        codes = repo_code_objects(self.prefixes)
        for co in codes:
            mon.set_local_events(self.TOOL_COUNT, co, mon.events.LINE)
            if self._coverage:
                mon.set_local_events(self.TOOL_COVER, co, mon.events.LINE)
        self.ncodes = len(codes)

    def begin_case(self, budget: int | None) -> None:
        self.steps = 0
        self.budget = budget
        self.tripped_stack = None
        self.failpoint = None
        self.cpu_budget = None
        self.cpu0 = time.thread_time()
        self.mem_budget = None
        self.mem_probe = None

    def arm_failpoint(self, after_steps: int, exc: BaseException, only_in: str | None = None) -> None:
        """Source-free failpoint: raise `exc` out of the `after_steps`-th line event from now (optionally only counting
        lines of files whose path contains `only_in`) - e.g. KeyboardInterrupt for a Ctrl-C in the middle of an operation."""
        self.failpoint = [after_steps, exc, only_in, False]

    def _on_line(self, code, line):
        self.steps += 1
        if self.mem_budget is not None and not self.steps & 0x7 and self.mem_probe is not None and self.mem_probe() > self.mem_budget:
            # third in-flight clock: traced memory. A case that allocates without end (an error message that doubles per
            # recursion level) would otherwise take the whole worker down and decide nothing.
            if self.tripped_stack is None:
                self.tripped_stack = "".join(traceback.format_stack(sys._getframe(1), limit=12))
            b = self.mem_budget
            self.mem_budget = None
            raise StepBudgetExceeded(f"more than {b} bytes of traced memory in one case")
        if self.cpu_budget is not None and not self.steps & 0x3FF and time.thread_time() - self.cpu0 > self.cpu_budget:
            # a second, in-flight clock: thread CPU time (load independent). It catches cases that make little monitored
            # progress per unit of work (each step opening files, parsing in C) and would outlast the wall-clock watchdog.
            if self.tripped_stack is None:
                self.tripped_stack = "".join(traceback.format_stack(sys._getframe(1), limit=12))
            if time.thread_time() - self.cpu0 > self.cpu_budget + 20:
                self.cpu_budget = None
            raise StepBudgetExceeded(f"more than {self.cpu_budget} s of thread CPU time in one case")
        fp = self.failpoint
        if fp is not None and (fp[2] is None or fp[2] in code.co_filename):
            fp[0] -= 1
            if fp[0] <= 0:
                self.failpoint = None
                self.failpoint_fired_at = f"{code.co_filename.split(REPO_MARK)[-1]}:{line}"
                raise fp[1]
        if self.budget is not None and self.steps > self.budget:
            # keep raising at every further line event: one raise can be lost (inside a destructor, a C callback, a frame
            # that converts BaseException), and a swallowed abort would turn a decided case into a hang
            if self.tripped_stack is None:
                self.tripped_stack = "".join(traceback.format_stack(sys._getframe(1), limit=12))
            if self.steps > self.budget + 200000:
                self.budget = None  # the stack has long been unwound; never interfere with the harness's own clean-up forever
            raise StepBudgetExceeded(f"more than {self.budget} line events in monitored code")

    def _on_cover(self, code, line):
        fn = code.co_filename
        if REPO_MARK in fn:
            self.lines.add((fn.split(REPO_MARK, 1)[1], line))
        return self._mon.DISABLE

    def covered(self) -> list[str]:
        return sorted(f"{f}:{l}" for f, l in self.lines)


# --------------------------------------------------------------------------- inflate monitor


class InflateMonitor:
    """Wraps zlib.decompress / zlib.decompressobj; records calls made from repository frames."""

    def __init__(self):
        self.events: list[dict] = []
        self._installed = False

    def install(self) -> None:
        if self._installed:
            return
        import zlib

        mon = self
        orig_decompress = zlib.decompress
        orig_obj = zlib.decompressobj

        def decompress(data, *a, **kw):
            site = repo_frame_site(2)
            out = orig_decompress(data, *a, **kw)
            if site:
                mon.events.append({"site": site, "in": len(data), "out": len(out), "max_length": None})
            return out

        class DObj:
            def __init__(self, *a, **kw):
                self._o = orig_obj(*a, **kw)

            def decompress(self, data, max_length=0):
                site = repo_frame_site(2)
                out = self._o.decompress(data, max_length)
                if site:
                    mon.events.append({"site": site, "in": len(data), "out": len(out), "max_length": max_length})
                return out

            def flush(self, *a):
                return self._o.flush(*a)

            def __getattr__(self, k):
                return getattr(self._o, k)

        zlib.decompress = decompress
        zlib.decompressobj = DObj
        self._installed = True

    def reset(self) -> None:
        self.events.clear()


# --------------------------------------------------------------------------- memory monitor


class MemoryMonitor:
    def __init__(self):
        self.on = False

    def begin(self) -> None:
        if not tracemalloc.is_tracing():
            tracemalloc.start(1)
        tracemalloc.reset_peak()
        self.base = tracemalloc.get_traced_memory()[0]
        self.on = True
        # CPU time of this thread (not wall clock: independent of machine load); the only clock that sees work done
        # inside C code (regex engine, zlib, struct), which the line-event step clock cannot
        self.cpu0 = time.thread_time()

    def cpu(self) -> float:
        return time.thread_time() - self.cpu0 if self.on else 0.0

    def peak(self) -> int:
        if not self.on:
            return 0
        return max(0, tracemalloc.get_traced_memory()[1] - self.base)


# --------------------------------------------------------------------------- calling repo code


class Outcome:
    __slots__ = ("value", "exc", "tb")

    def __init__(self, value=None, exc=None, tb=None):
        self.value = value
        self.exc = exc
        self.tb = tb

    @property
    def ok(self) -> bool:
        return self.exc is None

    def exc_name(self) -> str | None:
        return None if self.exc is None else type(self.exc).__name__

    def brief(self) -> str:
        if self.exc is None:
            return "returned"
        return f"{type(self.exc).__name__}: {str(self.exc)[:200]}"


def call(fn, *a, **kw) -> Outcome:
    """Run code under test; ordinary exceptions become an Outcome (monitor aborts still propagate)."""
    try:
        return Outcome(value=fn(*a, **kw))
    except Exception as e:  # noqa: BLE001 - any exception is an observable outcome
        tb = traceback.format_exc(limit=-8)
        return Outcome(exc=e, tb=tb)
