"""Small valid inputs of every format with explicit field maps, and bounded 'exercisers' (open + reads + metadata).

Used by the fault-enumeration checks (C11 termination/resources, C12 refusal gates). Field maps are the harness's
own reading of the layouts (name, absolute offset, size, endianness); they never import the repository's c_* modules.
"""
from __future__ import annotations

import gzip
import io
import os
import struct

from vf.core import SECTOR, as_handle
from vf.writers import envelope as wenv
from vf.writers import hds as whds
from vf.writers import hyperv as whv
from vf.writers import qcow2 as wq
from vf.writers import vdi as wvdi
from vf.writers import vhd as wvhd
from vf.writers import vhdx as wvhdx
from vf.writers import vmdk as wvmdk
from vf.writers import vmtar as wtar

DATA = os.path.join(os.environ.get("VF_REPO", "/repo"), "tests", "data")


class Inp:
    def __init__(self, fmt, raw, fields, bounds=(), aux=None):
        self.fmt = fmt
        self.raw = raw
        self.fields = fields      # [(name, offset, size, '<' | '>')]
        limit = len(raw) if raw is not None else (4 << 20)
        self.bounds = sorted(set(b for b in bounds if 0 < b < limit))
        self.aux = aux or {}


def _struct(base, endian, spec):
    """spec: [(name, size)] packed -> [(name, abs_off, size, endian)]"""
    out = []
    off = base
    for name, size in spec:
        if not name.startswith("_"):
            out.append((name, off, size, endian))
        off += size
    return out


QCOW2_HDR = [("magic", 4), ("version", 4), ("backing_file_offset", 8), ("backing_file_size", 4), ("cluster_bits", 4), ("size", 8), ("crypt_method", 4),
             ("l1_size", 4), ("l1_table_offset", 8), ("refcount_table_offset", 8), ("refcount_table_clusters", 4), ("nb_snapshots", 4),
             ("snapshots_offset", 8), ("incompatible_features", 8), ("compatible_features", 8), ("autoclear_features", 8), ("refcount_order", 4),
             ("header_length", 4), ("compression_type", 1)]
QCOW2_SNAP = [("l1_table_offset", 8), ("l1_size", 4), ("id_str_size", 2), ("name_size", 2), ("date_sec", 4), ("date_nsec", 4), ("vm_clock_nsec", 8),
              ("vm_state_size", 4), ("extra_data_size", 4)]
KDMV_HDR = [("magic", 4), ("version", 4), ("flags", 4), ("capacity", 8), ("grain_size", 8), ("descriptor_offset", 8), ("descriptor_size", 8),
            ("num_grain_table_entries", 4), ("secondary_gd_offset", 8), ("primary_gd_offset", 8), ("overhead", 8), ("is_dirty", 1), ("_eol", 4),
            ("compress_algorithm", 2)]
COWD_HDR = [("magic", 4), ("version", 4), ("flags", 4), ("capacity", 4), ("grain_size", 4), ("primary_gd_offset", 4), ("num_gd_entries", 4), ("next_free", 4)]
SE_HDR = [(n, 8) for n in ("magic", "version", "capacity", "grain_size", "grain_table_size", "flags", "_r1", "_r2", "_r3", "_r4", "volatile_header_offset",
                           "volatile_header_size", "journal_header_offset", "journal_header_size", "journal_offset", "journal_size", "grain_directory_offset",
                           "grain_directory_size", "grain_tables_offset", "grain_tables_size", "free_bitmap_offset", "free_bitmap_size", "backmap_offset",
                           "backmap_size", "grains_offset", "grains_size")]
VHD_FOOTER = [("cookie", 8), ("features", 4), ("version", 4), ("data_offset", 8), ("timestamp", 4), ("creator_application", 4), ("creator_version", 4),
              ("creator_host_os", 4), ("original_size", 8), ("current_size", 8), ("disk_geometry", 4), ("disk_type", 4), ("checksum", 4)]
VHD_DYN = [("cookie", 8), ("data_offset", 8), ("table_offset", 8), ("header_version", 4), ("max_table_entries", 4), ("block_size", 4), ("checksum", 4)]
VDI_HDR = [("_info", 64), ("Signature", 4), ("Version", 4), ("HeaderSize", 4), ("ImageType", 4), ("ImageFlags", 4), ("_desc", 256), ("BlocksOffset", 4),
           ("DataOffset", 4), ("NumCylinders", 4), ("NumHeads", 4), ("NumSectors", 4), ("SectorSize", 4), ("Unused1", 4), ("DiskSize", 8), ("BlockSize", 4),
           ("BlockExtraData", 4), ("BlocksInHDD", 4), ("BlocksAllocated", 4)]
HDS_HDR = [("m_Sig", 16), ("m_Type", 4), ("m_Heads", 4), ("m_Cylinders", 4), ("m_Sectors", 4), ("m_Size", 4), ("m_SizeInSectors", 8), ("m_DiskInUse", 4),
           ("m_FirstBlockOffset", 4), ("m_Flags", 4), ("m_FormatExtensionOffset", 8)]
HV_HDR = [("signature", 4), ("checksum", 4), ("sequence_number", 2), ("version", 4), ("unknown2", 8), ("alignment", 4), ("replay_log_offset", 8),
          ("replay_log_size", 8), ("header_size", 4)]
HV_REPLAY = [("signature", 4), ("checksum", 4), ("num_entries", 4), ("unknown1", 1), ("max_entries", 4)]
HV_OBJ = [("type", 1), ("checksum", 4), ("offset", 8), ("size", 4), ("allocated", 1)]
HV_KT = [("signature", 2), ("index", 2), ("sequence_number", 2), ("checksum", 4)]
HV_ENT = [("type", 2), ("size", 4), ("parent_table_idx", 2), ("parent_offset", 4), ("checksum", 4), ("insertion_sequence", 4), ("data_offset", 1)]
VHDX_HEAD = [("signature", 4), ("checksum", 4), ("sequence_number", 8), ("_fw", 16), ("_dw", 16), ("_log", 16), ("log_version", 2), ("version", 2), ("log_length", 4), ("log_offset", 8)]


def build_inputs(rng) -> list[Inp]:
    out = []
    # ---------------- qcow2 (standard L2, compressed clusters, snapshots, backing name)
    cb = 9
    size = 40 * 512
    kinds = [rng.choice("NNZzUC") for _ in range(40)]
    v1 = wq.make_view(rng, size=size, cluster_bits=cb, kinds=kinds, extl2=False, tag=1)
    v2 = wq.make_view(rng, size=size, cluster_bits=cb, kinds=[rng.choice("NU") for _ in range(40)], extl2=False, tag=2)
    img, _, meta = wq.build(rng, cluster_bits=cb, size=size, views=[v1, v2], version=3, placement="shuffle",
                            extensions=[wq.extension(wq.EXT_BACKING_FORMAT, b"raw"), wq.extension(0x12345678, b"abcde")], backing_name=b"base.img", tuned_frac=0.0)
    raw = img.to_bytes()
    f = _struct(0, ">", QCOW2_HDR)
    f += [("ext0.magic", 112, 4, ">"), ("ext0.len", 116, 4, ">"), ("ext1.magic", 112 + 16, 4, ">"), ("ext1.len", 112 + 20, 4, ">")]
    l1o = meta["l1_offset"]
    f += [("l1[0]", l1o, 8, ">")]
    l2o = struct.unpack_from(">Q", raw, l1o)[0] & 0x00FFFFFFFFFFFE00
    f += [(f"l2[{i}]", l2o + 8 * i, 8, ">") for i in range(0, 40, 3)]
    so = meta["snapshots_offset"]
    f += [("snap0." + n, o, s, e) for n, o, s, e in _struct(so, ">", QCOW2_SNAP)]
    out.append(Inp("qcow2", raw, f, bounds=[72, 104, 112, 512, l1o, l2o, l2o + 512, so, so + 40], aux={"backing": True}))
    # ---------------- qcow2 extended L2
    cb = 14
    size = 6 << cb
    ve = wq.make_view(rng, size=size, cluster_bits=cb, kinds="NSuZCS", extl2=True, tag=3)
    img, _, meta = wq.build(rng, cluster_bits=cb, size=size, views=[ve], version=3, extl2=True, placement="seq", tuned_frac=0.0)
    raw = img.to_bytes()
    l1o = meta["l1_offset"]
    l2o = struct.unpack_from(">Q", raw, l1o)[0] & 0x00FFFFFFFFFFFE00
    f = _struct(0, ">", QCOW2_HDR) + [("l1[0]", l1o, 8, ">")] + [(f"l2x[{i}]", l2o + 8 * i, 8, ">") for i in range(12)]
    out.append(Inp("qcow2-ext", raw, f, bounds=[104, 112, l1o, l2o, l2o + 96]))
    # ---------------- vmdk hosted / stream / cowd / sesparse
    desc = wvmdk.descriptor_text(['RW 300 SPARSE "x.vmdk"'])
    sf, _, meta = wvmdk.build_hosted(rng, capacity=300, grain=8, ngte=64, placement="shuffle", tag=4, descriptor=desc, redundant=True)
    raw = sf.to_bytes()
    gd = meta["gd_sector"] * SECTOR
    gt0 = struct.unpack_from("<I", raw, gd)[0] * SECTOR
    f = _struct(0, "<", KDMV_HDR) + [("gd[0]", gd, 4, "<")] + [(f"gt[{i}]", gt0 + 4 * i, 4, "<") for i in range(0, 38, 3)]
    out.append(Inp("vmdk-hosted", raw, f, bounds=[512, gd, gt0, gt0 + 256]))
    sf, _, meta = wvmdk.build_stream_optimized(rng, capacity=300, grain=8, ngte=64, tag=5, descriptor=desc)
    raw = sf.to_bytes()
    foot = len(raw) - 1024
    f = _struct(0, "<", KDMV_HDR) + [("footer." + n, o, s, e) for n, o, s, e in _struct(foot, "<", KDMV_HDR)]
    gdo = struct.unpack_from("<Q", raw, foot + 56)[0] * SECTOR
    gto = struct.unpack_from("<I", raw, gdo)[0] * SECTOR
    g0 = next((struct.unpack_from("<I", raw, gto + 4 * i)[0] for i in range(64) if struct.unpack_from("<I", raw, gto + 4 * i)[0] > 1), 0) * SECTOR
    f += [("gd[0]", gdo, 4, "<"), ("gt[0]", gto, 4, "<"), ("grain0.lba", g0, 8, "<"), ("grain0.cmp_size", g0 + 8, 4, "<")]
    out.append(Inp("vmdk-stream", raw, f, bounds=[512, g0, g0 + 12, gto, gdo, foot, foot + 512]))
    sf, _, meta = wvmdk.build_cowd(rng, capacity=300, grain=8, placement="shuffle", tag=6)
    raw = sf.to_bytes()
    f = _struct(0, "<", COWD_HDR) + [("gd[0]", 4 * SECTOR, 4, "<")]
    gto = struct.unpack_from("<I", raw, 4 * SECTOR)[0] * SECTOR
    f += [(f"gt[{i}]", gto + 4 * i, 4, "<") for i in range(0, 38, 5)]
    out.append(Inp("vmdk-cowd", raw, f, bounds=[32, 2048, gto]))
    sf, _, meta = wvmdk.build_sesparse(rng, capacity=900, grain=8, gt_sectors=1, placement="shuffle", tag=7)
    raw = sf.to_bytes()
    f = _struct(0, "<", SE_HDR)
    gdo = struct.unpack_from("<Q", raw, 16 * 8)[0] * SECTOR
    gto = struct.unpack_from("<Q", raw, 18 * 8)[0] * SECTOR
    f += [("gd[0]", gdo, 8, "<"), ("gd[1]", gdo + 8, 8, "<")] + [(f"gt[{i}]", gto + 8 * i, 8, "<") for i in range(0, 64, 7)]
    out.append(Inp("vmdk-sesparse", raw, f, bounds=[208, 512, gdo, gto]))
    # ---------------- vhdx
    sf, _, meta = wvhdx.build(rng, block_size=1 << 20, sector_size=512, nblocks=3, states=[6, 2, 6], placement="shuffle", tag=8)
    end = max(int(v) for v in meta["pos_mb"].values()) + 1
    sfb = sf.read_at(0, 4 << 20)  # metadata only; payload lives beyond and is supplied through the sparse object
    MBb = 1 << 20
    f = [("fileid.signature", 0, 8, "<")]
    for hb in (0x10000, 0x20000):
        f += [(f"head@{hb:x}." + n, o, s, e) for n, o, s, e in _struct(hb, "<", VHDX_HEAD)]
    for rb in (0x30000, 0x40000):
        f += [(f"regi@{rb:x}.signature", rb, 4, "<"), (f"regi@{rb:x}.entry_count", rb + 8, 4, "<")]
        for i in range(2):
            f += [(f"regi@{rb:x}.e{i}.guid", rb + 16 + 32 * i, 16, "<"), (f"regi@{rb:x}.e{i}.file_offset", rb + 32 + 32 * i, 8, "<"), (f"regi@{rb:x}.e{i}.length", rb + 40 + 32 * i, 4, "<")]
    mo = meta["meta_mb"] * MBb
    f += [("meta.signature", mo, 8, "<"), ("meta.entry_count", mo + 10, 2, "<")]
    for i in range(5):
        f += [(f"meta.e{i}.item_id", mo + 32 + 32 * i, 16, "<"), (f"meta.e{i}.offset", mo + 48 + 32 * i, 4, "<"), (f"meta.e{i}.length", mo + 52 + 32 * i, 4, "<")]
    for i in range(5):
        io_ = struct.unpack_from("<I", sfb, mo + 48 + 32 * i)[0]
        ln = struct.unpack_from("<I", sfb, mo + 52 + 32 * i)[0]
        f += [(f"meta.item{i}.value", mo + io_, min(ln, 8), "<")]
    bo = meta["bat_mb"] * MBb
    f += [(f"bat[{i}]", bo + 8 * i, 8, "<") for i in range(3)]
    out.append(Inp("vhdx", None, f, bounds=[8, 0x10000, 0x10050, 0x20000, 0x30000, 0x30010, 0x40000, mo, mo + 32, mo + 0x10000, bo, bo + 8], aux={"sparse": sf}))
    # ---------------- vhd
    sf, _, meta = wvhd.build_dynamic(rng, block_size=4096, nblocks=12, placement="shuffle", tag=9)
    raw = sf.to_bytes()
    fo = len(raw) - 512
    f = [("footer." + n, o, s, e) for n, o, s, e in _struct(fo, ">", VHD_FOOTER)] + [("dyn." + n, o, s, e) for n, o, s, e in _struct(meta["header_off"], ">", VHD_DYN)]
    f += [(f"bat[{i}]", meta["table_off"] + 4 * i, 4, ">") for i in range(0, 12, 2)]
    out.append(Inp("vhd-dyn", raw, f, bounds=[512, meta["header_off"], meta["table_off"], fo, fo + 64]))
    sf, _, meta = wvhd.build_fixed(rng, nsectors=64, tag=10)
    raw = sf.to_bytes()
    f = [("footer." + n, o, s, e) for n, o, s, e in _struct(len(raw) - 512, ">", VHD_FOOTER)]
    out.append(Inp("vhd-fixed", raw, f, bounds=[len(raw) - 512, len(raw) - 511]))
    # ---------------- vdi, hds
    sf, _, meta = wvdi.build(rng, block_size=4096, nblocks=10, placement="shuffle", tag=11)
    raw = sf.to_bytes()
    f = _struct(0, "<", VDI_HDR) + [(f"map[{i}]", meta["blocks_offset"] + 4 * i, 4, "<") for i in range(0, 10, 2)]
    out.append(Inp("vdi", raw, f, bounds=[64, 68, 400, meta["blocks_offset"], meta["data_offset"]]))
    for ver in (1, 2):
        sf, _, meta = whds.build_hds(rng, version=ver, m_sectors=8, nclusters=12, placement="shuffle", tag=12 + ver)
        raw = sf.to_bytes()
        f = _struct(0, "<", HDS_HDR) + [(f"bat[{i}]", 64 + 4 * i, 4, "<") for i in range(0, 12, 2)]
        out.append(Inp(f"hds-v{ver}", raw, f, bounds=[16, 64, 64 + 48]))
    # ---------------- hyper-v (generated + real sample)
    tree = {"configuration": {"i": whv.Val("int", -5), "u": whv.Val("uint", 2**64 - 1), "d": whv.Val("double", 1.5), "s": whv.Val("string", "héllo"),
                              "big": whv.Val("string", "X" * 0x500, file_object=True), "arr": whv.Val("array", b"\1\2\3"), "b": whv.Val("bool", 1),
                              "sub": {"deep": whv.Val("int", 7), "sub2": {"x": whv.Val("string", "y")}}}}
    raw, meta = whv.build(rng, tree, ntables=2, stale_tables=1, free_prob=0.3, extra_object_tables=1)
    f = [("hdr0." + n, o, s, e) for n, o, s, e in _struct(0, "<", HV_HDR)] + [("hdr1." + n, o, s, e) for n, o, s, e in _struct(0x1000, "<", HV_HDR)]
    f += [("replay." + n, o, s, e) for n, o, s, e in _struct(meta["replay_off"], "<", HV_REPLAY)]
    f += [("objtable.signature", 0x2000, 4, "<"), ("objtable.num_entries", 0x2004, 4, "<")]
    nobj = struct.unpack_from("<I", raw, 0x2004)[0]
    for i in range(nobj):
        f += [(f"obj{i}." + n, o, s, e) for n, o, s, e in _struct(0x2008 + 18 * i, "<", HV_OBJ)]
    bounds = [46, 0x1000, 0x2000, 0x2008, meta["replay_off"]]
    for ti, to in enumerate(meta["table_offsets"][:3]):
        f += [(f"kt{ti}." + n, o, s, e) for n, o, s, e in _struct(to, "<", HV_KT)]
        p = 10
        for ei in range(4):
            if to + p + 21 > len(raw):
                break
            sz = struct.unpack_from("<I", raw, to + p + 2)[0]
            # (a free entry's stale contents are not walkable: the field list simply ends there)
            if not sz or sz > 0x4000 or to + p + sz > len(raw):
                break
            f += [(f"kt{ti}.e{ei}." + n, o, s, e) for n, o, s, e in _struct(to + p, "<", HV_ENT)]
            bounds += [to + p, to + p + 21]
            p += sz
    out.append(Inp("hyperv", raw, f, bounds=bounds))
    raw = open(os.path.join(DATA, "test.VMRS"), "rb").read()
    f = [("hdr0." + n, o, s, e) for n, o, s, e in _struct(0, "<", HV_HDR)] + [("hdr1." + n, o, s, e) for n, o, s, e in _struct(0x1000, "<", HV_HDR)]
    f += [("objtable.signature", 0x2000, 4, "<"), ("objtable.num_entries", 0x2004, 4, "<")]
    for i in range(0, 12):
        f += [(f"obj{i}." + n, o, s, e) for n, o, s, e in _struct(0x2008 + 18 * i, "<", HV_OBJ)]
    out.append(Inp("hyperv-sample", raw, f, bounds=[46, 0x1000, 0x2000]))
    # ---------------- envelope
    key = bytes(range(32))
    payload = bytes(rng.getrandbits(8) for _ in range(5000))
    raw, meta = wenv.build(rng, payload=payload, key=key, iv=bytes(12), extra_attrs=[("x.n", wenv.T_U32, 0, 7), ("x.s", wenv.T_STRING, 0, "str")], padding=100)
    f = [("magic", 0, 21, "<"), ("size", 504, 4, "<"), ("version", 508, 4, "<")]
    for name, (roff, rlen, voff, vlen) in meta["attr_index"].items():
        f += [(f"attr[{name}].type", roff, 1, "<"), (f"attr[{name}].flag", roff + 1, 1, "<")]
        if vlen >= 8:
            f += [(f"attr[{name}].len", voff, 8, "<")]
    ao = meta["aead_off"]
    f += [("aead.magic", ao, 23, "<"), ("aead.size", ao + 4088, 4, "<"), ("aead.version", ao + 4092, 4, "<")]
    out.append(Inp("envelope", raw, f, bounds=[512, 4096, ao, ao + 32, len(raw) - 8], aux={"key": key}))
    # ---------------- vmtar
    members = [{"name": "dir", "kind": "dir"}, {"name": "dir/a", "kind": "file", "data": b"A" * 5000}, {"name": "dir/b", "kind": "std", "data": b"B" * 700},
               {"name": "dir/c", "kind": "file", "data": b"C" * 100}, {"name": "e", "kind": "empty"}, {"name": "L" * 120, "kind": "file", "data": b"xyz", "longname": True}]
    raw, _, offs = wtar.build(rng, members)
    f = []
    for hi in range(0, 8):
        base = 512 * hi
        f += [(f"h{hi}.size", base + 124, 12, "<"), (f"h{hi}.type", base + 156, 1, "<"), (f"h{hi}.chksum", base + 148, 8, "<"), (f"h{hi}.magic", base + 257, 8, "<"),
              (f"h{hi}.offset_data", base + 496, 4, "<"), (f"h{hi}.textPgs", base + 504, 4, "<")]
    out.append(Inp("vmtar", raw, f, bounds=[512, 1024, 4096]))
    out.append(Inp("vmtar-gz", gzip.compress(raw), [("gz.magic", 0, 2, "<"), ("gz.method", 2, 1, "<"), ("gz.flags", 3, 1, "<")], bounds=[10, 18]))
    return out


def get_raw(inp: Inp) -> bytes:
    if inp.raw is not None:
        return inp.raw
    return inp.aux["sparse"].read_at(0, 4 << 20)


def make_handle(inp: Inp, raw: bytes):
    """Mutated metadata bytes over the (sparse) payload of the original image."""
    if inp.raw is not None:
        return io.BytesIO(raw)
    from vf.core import SparseFile

    src = inp.aux["sparse"]
    sf = SparseFile(src.end)
    sf.put(0, raw)
    for eo, el, ed in src._ext:
        if eo >= len(raw):
            sf.put(eo, ed, el)
    return sf.open()


def exercise(fmt: str, fh, aux: dict) -> dict:
    """Open + bounded reads + metadata access. Raises whatever the repository raises."""
    info = {}

    def reads(st):
        size = st.size or 0
        info["size"] = size
        for off in (0, max(0, size // 2), max(0, size - 65536)):
            st.seek(off)
            info["read"] = info.get("read", 0) + len(st.read(65536))

    base = fmt.split("-")[0]
    if base == "qcow2":
        from dissect.hypervisor.disk.qcow2 import ALLOW_NO_BACKING_FILE, QCow2

        q = QCow2(fh, backing_file=ALLOW_NO_BACKING_FILE)
        reads(q)
        for s in q.snapshots[:8]:
            info["snap"] = s.name
            sv = s.open()
            sv.read(4096)
        return info
    if base == "vmdk":
        from dissect.hypervisor.disk.vmdk import VMDK

        v = VMDK(fh)
        reads(v)
        return info
    if base == "vhdx":
        from dissect.hypervisor.disk.vhdx import VHDX

        v = VHDX(fh)
        reads(v)
        return info
    if base == "vhd":
        from dissect.hypervisor.disk.vhd import VHD

        v = VHD(fh)
        reads(v)
        return info
    if base == "vdi":
        from dissect.hypervisor.disk.vdi import VDI

        v = VDI(fh)
        reads(v)
        return info
    if base == "hds":
        from dissect.hypervisor.disk.hdd import HDS

        v = HDS(fh)
        reads(v)
        return info
    if base == "hyperv":
        from dissect.hypervisor.descriptor.hyperv import HyperVFile

        hf = HyperVFile(fh)
        info["keys"] = len(hf.as_dict())
        return info
    if base == "envelope":
        from dissect.hypervisor.util.envelope import Envelope

        e = Envelope(fh)
        info["len"] = len(e.decrypt(aux["key"]))
        return info
    if base == "vmtar":
        from dissect.hypervisor.util import vmtar

        t = vmtar.open(fileobj=fh)
        n = 0
        for m in t.getmembers():
            if m.isreg():
                f = t.extractfile(m)
                n += len(f.read(1 << 20))
        info["extracted"] = n
        return info
    raise ValueError(fmt)
