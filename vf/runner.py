"""Driver: plans cases, shards them over worker subprocesses, merges results into a verdict + evidence."""
from __future__ import annotations

import argparse
import collections
import concurrent.futures
import importlib
import json
import os
import re
import shutil
import subprocess
import sys
import tempfile
import time

ROOT = os.path.dirname(os.path.dirname(os.path.abspath(__file__)))
PY = os.environ.get("VF_PYTHON", "/venv/bin/python")
REPO = os.environ.get("VF_REPO", "/repo")
EVID = os.path.join(ROOT, "evidence")
GUARD = "DISSECT_HYPERVISOR_VERIF"


def worker_env(extra: dict | None, pyc: str) -> dict:
    env = dict(os.environ)
    env["PYTHONHASHSEED"] = "0"
    env["PYTHONPYCACHEPREFIX"] = pyc
    env["PYTHONDONTWRITEBYTECODE"] = "1"
    env[GUARD] = "1"
    deps = os.path.join(ROOT, ".deps")
    env["PYTHONPATH"] = os.pathsep.join([ROOT, REPO, deps])
    env["VF_REPO"] = REPO
    env.pop("DISSECT_STREAM_BUFFER_SIZE", None)
    env["PIP_NO_INDEX"] = "1"
    if extra:
        env.update({k: str(v) for k, v in extra.items()})
    return env


def load_known():
    p = os.path.join(ROOT, "known_findings.json")
    if not os.path.exists(p):
        return []
    with open(p) as fh:
        return json.load(fh).get("findings", [])


def matches_finding(finding: dict, prop: str, viol: dict) -> bool:
    if finding.get("property") != prop:
        return False
    if finding.get("mech") != viol.get("mech"):
        return False
    rx = finding.get("what_regex")
    if rx and not re.search(rx, viol.get("what", "")):
        return False
    return True


def run_check(check: str, tier: str, seed: int, jobs: int, only_case: dict | None = None, verbose: bool = True) -> int:
    t_start = time.time()
    mod = importlib.import_module(f"vf.checks.{check.lower()}")
    if only_case is not None:
        cases = [only_case]
    else:
        cases = mod.plan(tier, seed)
    for i, c in enumerate(cases):
        c.setdefault("cid", f"{i:06d}")
    # group by env
    groups: dict[str, list[dict]] = collections.defaultdict(list)
    for c in cases:
        groups[json.dumps(c.get("env") or {}, sort_keys=True)].append(c)
    total = max(len(cases), 1)
    shards: list[tuple[dict, list[dict]]] = []
    for envkey, cs in groups.items():
        n = max(1, min(len(cs), round(jobs * len(cs) / total) or 1))
        if len(groups) == 1:
            n = max(1, min(len(cs), jobs))
        buckets = [[] for _ in range(n)]
        # weight-aware round robin: heavier cases first
        order = sorted(range(len(cs)), key=lambda i: -cs[i].get("weight", 1))
        loads = [0.0] * n
        for i in order:
            b = loads.index(min(loads))
            buckets[b].append(cs[i])
            loads[b] += cs[i].get("weight", 1)
        for b in buckets:
            if b:
                b.sort(key=lambda c: c["cid"])
                shards.append((json.loads(envkey), b))

    work = tempfile.mkdtemp(prefix=f"vf-{check}-")
    pyc = os.path.join(work, "pyc")
    timeout = getattr(mod, "TIMEOUT", {"quick": 900, "thorough": 6 * 3600})[tier]
    results: list[dict] = []
    covered: set[str] = set()
    inconclusive: list[str] = []
    finis: list = []

    def run_shard(idx: int):
        env, cs = shards[idx]
        cf = os.path.join(work, f"cases-{idx}.json")
        of = os.path.join(work, f"out-{idx}.jsonl")
        with open(cf, "w") as fh:
            json.dump(cs, fh)
        cmd = [PY, "-X", "faulthandler", "-m", "vf.worker", check, tier, str(seed), cf, of]
        try:
            p = subprocess.run(cmd, env=worker_env(env, pyc), cwd=ROOT, capture_output=True, text=True, timeout=timeout)
            return idx, p.returncode, p.stderr[-4000:], of, False
        except subprocess.TimeoutExpired as e:
            return idx, -9, (e.stderr or b"")[-2000:] if isinstance(e.stderr, bytes) else str(e.stderr)[-2000:], of, True

    try:
        with concurrent.futures.ThreadPoolExecutor(max_workers=jobs) as ex:
            for idx, rc, err, of, timed_out in ex.map(run_shard, range(len(shards))):
                started = None
                ended = False
                if os.path.exists(of):
                    with open(of) as fh:
                        for line in fh:
                            try:
                                rec = json.loads(line)
                            except ValueError:
                                continue
                            if "start" in rec:
                                started = rec["start"]
                            elif rec.get("end"):
                                ended = True
                                covered.update(rec.get("covered", []))
                                if "fini" in rec:
                                    finis.append(rec["fini"])
                            else:
                                results.append(rec)
                                started = None
                if timed_out:
                    inconclusive.append(f"shard {idx} hit the wall-clock watchdog ({timeout}s) in case {started}")
                elif rc != 0 or not ended:
                    inconclusive.append(f"shard {idx} exited {rc} in case {started}: {err[-600:]}")
    finally:
        shutil.rmtree(work, ignore_errors=True)

    by_cid = {c["cid"]: c for c in cases}
    # ---- merge
    counters: collections.Counter = collections.Counter()
    sets: dict[str, set] = collections.defaultdict(set)
    sigs: set[str] = set()
    samples: list = []
    violations: list[tuple[dict, dict]] = []
    harness_errors: list[tuple[str, str]] = []
    steps_max = 0
    peak_max = 0
    open_sites: set[str] = set()
    audit_flags = 0
    for r in results:
        for k, v in (r.get("cnt") or {}).items():
            counters[k] += v
        for k, v in (r.get("sets") or {}).items():
            if len(sets[k]) < 5000:
                sets[k].update(v if isinstance(v, list) else [v])
        if r.get("nontrivial") and r.get("sig") is not None:
            sigs.add(str(r["sig"]))
        if r.get("sample") is not None and len(samples) < 6:
            samples.append(r["sample"])
        for v in r.get("viol") or []:
            violations.append((r, v))
        if r.get("harness_error"):
            harness_errors.append((r["cid"], r["harness_error"]))
        steps_max = max(steps_max, r.get("steps", 0))
        peak_max = max(peak_max, r.get("peak", 0))
        open_sites.update(r.get("open_sites", []))
        if r.get("audit_writes") or r.get("audit_network"):
            audit_flags += 1

    known = load_known()
    os.makedirs(os.path.join(EVID, "replay"), exist_ok=True)
    new_viol = []
    known_hits: dict[str, int] = collections.Counter()
    for r, v in violations:
        hit = next((f for f in known if matches_finding(f, check, v)), None)
        if hit:
            known_hits[hit["mech"] + " " + hit.get("text", "")] += 1
        else:
            new_viol.append((r, v))

    for k, n in known_hits.items():
        print(f"KNOWN-FINDING: property={check} {k} (x{n})")

    by_case: dict[str, list] = collections.OrderedDict()
    for r, v in new_viol:
        by_case.setdefault(r["cid"], []).append(v)
    for n_shown, (cid, vs) in enumerate(by_case.items()):
        if n_shown >= 12:
            print(f"  ... and {len(by_case) - 12} more violating cases")
            break
        path = os.path.join(EVID, "replay", f"{check}-{tier}-s{seed}-{cid}.json")
        with open(path, "w") as fh:
            json.dump({"property": check, "tier": tier, "seed": seed, "case": by_cid.get(cid), "violations": vs}, fh, indent=1, default=repr)
        print(f"VIOLATION property={check} replay={path}")
        if verbose:
            v = vs[0]
            print(f"  case: {json.dumps(by_cid.get(cid), default=repr)[:300]}")
            print(f"  what: {v.get('what')}  mech: {v.get('mech')}  (+{len(vs) - 1} more in this case)")
            det = json.dumps(v.get("detail"), default=repr)
            print(f"  detail: {det[:700]}")

    # ---- gating
    minima = getattr(mod, "MINIMA", {}).get(tier, {}) if only_case is None else {}
    for k, need in minima.items():
        if counters.get(k, 0) < need:
            inconclusive.append(f"deciding counter {k}={counters.get(k, 0)} below minimum {need}")
    for cid, he in harness_errors[:5]:
        inconclusive.append(f"harness error in case {cid}: {he[-800:]}")
    if len(results) < len(cases):
        inconclusive.append(f"only {len(results)} of {len(cases)} cases produced a result")

    # anchor coverage
    anchors = getattr(mod, "ANCHOR_FILES", [])
    anchor_cov = {}
    anchor_lines = {}
    for a in anchors:
        short = a.split("dissect/hypervisor/", 1)[-1]
        lines = sorted(int(c.rsplit(":", 1)[1]) for c in covered if c.startswith(short + ":"))
        anchor_cov[short] = len(lines)
        anchor_lines[short] = lines

    extra = mod.summarize(results, counters, sets) if hasattr(mod, "summarize") else {}
    if finis and isinstance(finis[0], dict) and "contract_evals" in finis[0]:
        by_class: dict = {}
        for f_ in finis:
            for k_, v_ in (f_.get("by_class") or {}).items():
                by_class[k_] = by_class.get(k_, 0) + v_
        extra = dict(extra)
        extra["contract_monitor"] = {"available": all(f_.get("contracts_available") for f_ in finis),
                                     "postcondition_evaluations": sum(f_.get("contract_evals", 0) for f_ in finis), "by_stream_class": by_class}
    distinct = len(sigs)
    coverage = {
        "evaluations": len(results),
        "distinct_nontrivial": distinct,
        "rule": mod.RULE,
        "samples": samples or [{"note": "no sample recorded"}],
        "counters": dict(sorted(counters.items())),
        "observed_sets": {k: sorted(map(str, v))[:60] for k, v in sets.items()},
        "observed_set_sizes": {k: len(v) for k, v in sets.items()},
        "max_steps_in_a_case": steps_max,
        "anchor_lines_executed": anchor_cov,
        "anchor_line_numbers_executed": anchor_lines,
        "repo_open_sites_observed": sorted(open_sites),
        "cases_with_audit_write_or_network_events": audit_flags,
        "shards": len(shards),
        "known_finding_hits": dict(known_hits),
        "inconclusive_reasons": inconclusive,
        "verdict": "violated" if new_viol else ("inconclusive" if inconclusive else "held"),
    }
    if peak_max:
        coverage["max_traced_peak_bytes"] = peak_max
    coverage.update(extra)
    evidence = {
        "property_id": check,
        "tier": tier,
        "seed": seed,
        "level": mod.LEVEL,
        "coverage": coverage,
        "assumptions": getattr(mod, "ASSUMPTIONS", []),
        "wall_s": round(time.time() - t_start, 2),
        "violations": len(new_viol),
    }
    if only_case is None:
        os.makedirs(EVID, exist_ok=True)
        with open(os.path.join(EVID, f"{check}.json"), "w") as fh:
            json.dump(evidence, fh, indent=1, default=repr)

    if verbose:
        print(
            f"[{check} {tier} seed={seed}] cases={len(results)}/{len(cases)} distinct_nontrivial={distinct} "
            f"violations={len(new_viol)} known={sum(known_hits.values())} wall={evidence['wall_s']}s"
        )
        top = ", ".join(f"{k}={v}" for k, v in list(sorted(counters.items()))[:14])
        print(f"  counters: {top}")
    if new_viol:
        return 1
    if inconclusive:
        for m in inconclusive[:8]:
            print(f"INCONCLUSIVE property={check} {m}")
        return 2
    if distinct < 2 and only_case is None:
        print(f"INCONCLUSIVE property={check} fewer than 2 distinct non-trivial cases")
        return 2
    return 0


def main() -> int:
    ap = argparse.ArgumentParser()
    ap.add_argument("check")
    ap.add_argument("--tier", default=os.environ.get("VERIF_TIER", "quick"), choices=["quick", "thorough"])
    ap.add_argument("--seed", type=int, default=int(os.environ.get("VERIF_SEED", "0") or 0))
    ap.add_argument("--jobs", type=int, default=int(os.environ.get("VF_JOBS", str(min(16, os.cpu_count() or 4)))))
    ap.add_argument("--replay")
    a = ap.parse_args()
    sys.path.insert(0, ROOT)
    only = None
    if a.replay:
        with open(a.replay) as fh:
            rp = json.load(fh)
        only = rp["case"]
        a.tier = rp.get("tier", a.tier)
        a.seed = rp.get("seed", a.seed)
    return run_check(a.check.upper(), a.tier, a.seed, a.jobs, only_case=only)


if __name__ == "__main__":
    sys.exit(main())
