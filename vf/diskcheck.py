"""Request generation and the read oracle shared by the disk-format checks."""
from __future__ import annotations

import hashlib
import random

from vf.core import FAULT, SECTOR, arm_fault, disturb_handles
from vf.monitors import call


def boundary_points(size: int, units: list[int], rng: random.Random, per_unit: int = 6, extra=()) -> list[int]:
    """Offsets worth starting/ending requests at: 0, size, unit multiples +-1/+-sector near sampled positions."""
    pts = {0, size, max(size - 1, 0), max(size - SECTOR, 0), min(SECTOR, size), min(1, size)}
    for u in units:
        if u <= 0 or u > size * 2:
            continue
        n = size // u
        idxs = {0, 1, 2, n - 1, n, max(n // 2, 0)}
        for _ in range(per_unit):
            idxs.add(rng.randrange(0, n + 1))
        for i in idxs:
            b = i * u
            for d in (-SECTOR, -1, 0, 1, SECTOR):
                p = b + d
                if 0 <= p <= size:
                    pts.add(p)
    for e in extra:
        for d in (-1, 0, 1):
            if 0 <= e + d <= size:
                pts.add(e + d)
    return sorted(pts)


def gen_requests(
    rng: random.Random,
    size: int,
    units: list[int],
    n_random: int = 60,
    max_len: int = 1 << 20,
    exhaustive_sectors: int = 24,
    pair_cap: int = 400,
    extra=(),
    long_reads: int = 2,
    long_cap: int = 24 << 20,
) -> tuple[list[tuple[int, int]], bool]:
    """-> (requests [(offset, length)], exhaustive?)

    Besides boundary pairs and random requests up to `max_len`, `long_reads` requests far longer than any unit or
    buffer (whole disk when it is at most `long_cap`, otherwise windows of up to `long_cap` bytes)."""
    nsec = -(-size // SECTOR)
    reqs: list[tuple[int, int]] = []
    if nsec <= exhaustive_sectors:
        for a in range(nsec + 1):
            for b in range(a + 1, nsec + 1):
                reqs.append((a * SECTOR, min(b * SECTOR, size) - a * SECTOR))
        for _ in range(n_random):
            o = rng.randrange(0, size + 1)
            reqs.append((o, rng.randrange(0, size - o + 2)))
        reqs.append((0, size))
        return reqs, True
    pts = boundary_points(size, units, rng, extra=extra)
    pairs = []
    for i, a in enumerate(pts):
        for b in pts[i + 1 :]:
            if b - a <= max_len:
                pairs.append((a, b - a))
    if len(pairs) > pair_cap:
        pairs = rng.sample(pairs, pair_cap)
    reqs.extend(pairs)
    for _ in range(n_random):
        o = rng.randrange(0, size)
        kind = rng.random()
        if kind < 0.5:
            ln = rng.randrange(1, min(max_len, size - o) + 1)
        elif kind < 0.8 and units:
            u = rng.choice(units)
            ln = min(rng.randrange(1, 4) * u + rng.randrange(-SECTOR, SECTOR + 1), max_len)
            ln = max(1, ln)
        else:
            ln = rng.randrange(1, 4 * SECTOR)
        reqs.append((o, ln))
    for j in range(long_reads):
        if size <= long_cap:
            reqs.append((0, size) if j == 0 else (rng.randrange(0, size), size))
        else:
            ln = rng.randrange(long_cap // 4, long_cap + 1)
            o = rng.randrange(0, size - ln + 1)
            if units and rng.random() < 0.5:
                o -= o % units[0]  # from a unit boundary minus/plus a little
                o = max(0, o + rng.choice([0, -SECTOR, SECTOR, 1]))
            reqs.append((o, min(ln, size - o)))
    return reqs, False


def digest(b: bytes) -> str:
    return hashlib.blake2b(b, digest_size=8).hexdigest()


def first_diff(a: bytes, b: bytes) -> int:
    n = min(len(a), len(b))
    if a[:n] == b[:n]:
        return n
    lo, hi = 0, n
    while hi - lo > 1:
        mid = (lo + hi) // 2
        if a[lo:mid] == b[lo:mid]:
            lo = mid
        else:
            hi = mid
    return lo


def mismatch_detail(off: int, n: int, got: bytes, exp: bytes) -> dict:
    fd = first_diff(got, exp)
    return {
        "offset": off,
        "length": n,
        "got_len": len(got),
        "exp_len": len(exp),
        "first_diff_at": off + fd,
        "got": got[fd : fd + 16].hex(),
        "exp": exp[fd : fd + 16].hex(),
        "got_digest": digest(got),
        "exp_digest": digest(exp),
    }


def compare_reads(stream, model, reqs, res: dict, mech: str, byte_cap: int = 48 << 20, max_viol: int = 3) -> None:
    """seek+read every request on `stream` and compare with model.expected; fills res['viol'], res['cnt']."""
    cnt = res.setdefault("cnt", {})
    viol = res.setdefault("viol", [])
    done = 0
    for off, n in reqs:
        if done > byte_cap:
            break
        exp = model.expected(off, n)
        o = call(lambda: (stream.seek(off), stream.read(n))[1])
        cnt["reads_compared"] = cnt.get("reads_compared", 0) + 1
        cnt["bytes_compared"] = cnt.get("bytes_compared", 0) + len(exp)
        done += len(exp)
        if not o.ok:
            viol.append(
                {
                    "what": f"exception on conformant input: {o.brief()}",
                    "mech": mech,
                    "detail": {"offset": off, "length": n, "tb": o.tb},
                }
            )
        elif o.value != exp:
            viol.append({"what": "content mismatch", "mech": mech, "detail": mismatch_detail(off, n, o.value, exp)})
        if len(viol) >= max_viol:
            break


def closed_handle_reads(stream, model, handles, reqs, rng, res: dict, mech: str, n: int = 5) -> None:
    """Last act of a case: the caller closes the backing file(s) and reads on. Failing is fine (there is nothing to read
    from); serving bytes that are not the image's - zeros, say - is not."""
    cnt = res.setdefault("cnt", {})
    viol = res.setdefault("viol", [])
    if viol or model.size <= 0 or not reqs:
        return
    for h in handles:
        try:
            getattr(h, "_fh", h).close()
        except Exception:  # noqa: BLE001
            pass
    for off, ln in rng.sample(list(reqs), k=min(n, len(reqs))):
        ln = min(ln, 1 << 20)
        exp = model.expected(off, ln)
        o = call(lambda: (stream.seek(off), stream.read(ln))[1])
        cnt["reads_after_the_backing_file_was_closed"] = cnt.get("reads_after_the_backing_file_was_closed", 0) + 1
        cnt["reads_after_close_that_raised"] = cnt.get("reads_after_close_that_raised", 0) + int(not o.ok)
        if o.ok and o.value != exp:
            viol.append({"what": "after the backing file was closed a read returned bytes that are not the image's instead of failing", "mech": mech,
                         "detail": mismatch_detail(off, ln, o.value, exp)})
            return


def two_readers(first, open_again, model, rng, res: dict, mech: str, rounds: int = 6) -> None:
    """Two streams obtained from the same container object (open() called twice) are two readers: each keeps its own
    position. They are read alternately, by position only (one seek each, then plain read(n) calls)."""
    cnt = res.setdefault("cnt", {})
    viol = res.setdefault("viol", [])
    if viol or model.size <= 0:
        return
    o = call(open_again)
    if not o.ok:
        viol.append({"what": f"opening a second stream on the same object failed: {o.brief()}", "mech": mech, "detail": {"tb": o.tb}})
        return
    second = o.value
    pos = [rng.randrange(0, model.size), rng.randrange(0, model.size)]
    streams = [first, second]
    for s_, p_ in zip(streams, pos):
        s_.seek(p_)
    for r in range(rounds):
        for j in (0, 1):
            n = rng.choice([1, 100, 512, 3000, 9000])
            got = call(streams[j].read, n)
            exp = model.expected(pos[j], n)
            cnt["two_reader_reads"] = cnt.get("two_reader_reads", 0) + 1
            if not got.ok or got.value != exp:
                viol.append({"what": "two streams opened on the same object do not keep separate positions", "mech": mech,
                             "detail": {"reader": j, "round": r, "position": pos[j], "length": n, "outcome": got.brief(),
                                        "same_object": streams[0] is streams[1]}})
                return
            pos[j] += len(exp)


def continuation_reads(stream, model, reqs, rng, res: dict, mech: str, n: int = 12) -> None:
    """History-dependent patterns on the same object: read [a, a+n), touch an unrelated place (first visits load
    tables / move the backing handle), then continue exactly where the first read ended - without an explicit seek
    and with one. Compared against the model like any other read."""
    cnt = res.setdefault("cnt", {})
    viol = res.setdefault("viol", [])
    size = model.size
    if size <= 0 or not reqs:
        return
    if rng.random() < 0.5:
        # between construction and the first read, too (lazily loaded tables must not rely on where the handle was left)
        cnt["handle_disturbances"] = cnt.get("handle_disturbances", 0) + disturb_handles(rng)
    for _ in range(n):
        if viol:
            return
        a, ln = rng.choice(reqs)
        ln = min(ln, 70000)
        if ln <= 0 or a + ln >= size:
            continue
        b, lb = rng.choice(reqs)
        lb = max(1, min(lb, 9000))
        m = rng.choice([1, 512, 4096, 9000])
        align = getattr(stream, "align", 8192) or 8192
        # resume either at the byte where the first read ended or at the end of the last buffer it filled
        # (that is where the backing handle was left)
        nxt = a + ln if rng.random() < 0.5 else min(-(-(a + ln) // align) * align, size - 1)
        steps = [("seek+read", a, ln), ("seek+read", b, lb), ("seek+read", nxt, m)]
        r = rng.random()
        if r < 0.3 and nxt == a + ln:
            steps = [("seek+read", a, ln), ("peek-elsewhere", b, lb), ("read-on", a + ln, m)]
        elif r < 0.6:
            # somebody else uses the same file object(s) in between (the caller, a second disk object on the same handle)
            steps = [("seek+read", a, ln), ("others-move-the-handles", 0, 0), ("seek+read", nxt, m)]
        for kind, off, k in steps:
            if kind == "others-move-the-handles":
                cnt["handle_disturbances"] = cnt.get("handle_disturbances", 0) + disturb_handles(rng)
                continue
            exp = model.expected(off, k)
            if kind == "seek+read":
                o = call(lambda: (stream.seek(off), stream.read(k))[1])
            elif kind == "peek-elsewhere":
                o = call(lambda: (stream.readoffset(off, k), stream.seek(a + ln))[0])
            else:
                o = call(lambda: stream.read(k))
            cnt["continuation_reads"] = cnt.get("continuation_reads", 0) + 1
            if not o.ok:
                viol.append({"what": f"exception in a read/visit-elsewhere/continue sequence: {o.brief()}", "mech": mech,
                             "detail": {"sequence": steps, "step": kind, "tb": o.tb}})
                break
            if o.value != exp:
                d = mismatch_detail(off, k, o.value, exp)
                d["sequence"] = steps
                viol.append({"what": "content mismatch in a read/visit-elsewhere/continue sequence", "mech": mech, "detail": d})
                break


def flush_util_buffers() -> int:
    import gc

    from dissect.util.stream import AlignedStream

    n = 0
    for o in gc.get_objects():
        if isinstance(o, AlignedStream) and getattr(o, "_buf", None) is not None:
            o._buf = None
            n += 1
    return n


def fault_retry_reads(stream, model, reqs, rng, res: dict, mech: str, n: int = 6) -> None:
    """A transient backend fault in the middle of a read (EIO, or a read that comes back empty / half as long), then the
    same read again on the same object. Under EIO the failed call may raise anything, but whatever is returned - then
    or on the retry - is the right bytes; after a short backend read only the retry is judged (the reader cannot
    invent the missing bytes, but it must not keep what it made of them either)."""
    cnt = res.setdefault("cnt", {})
    viol = res.setdefault("viol", [])
    if model.size <= 0 or not reqs:
        return
    for _ in range(n):
        if viol:
            return
        off, ln = rng.choice(reqs)
        ln = max(1, min(ln, 300000))
        exp = model.expected(off, ln)
        fired0 = FAULT["fired"]
        mode = rng.choice(["eio", "eio", "empty", "short"])
        if rng.random() < 0.5:
            # a successful read elsewhere first: there is an "earlier state" a failed update could leave behind
            w_off, w_ln = rng.choice(reqs)
            w_ln = max(1, min(w_ln, 70000))
            warm = call(lambda: (stream.seek(w_off), stream.read(w_ln))[1])
            if not warm.ok or warm.value != model.expected(w_off, w_ln):
                viol.append({"what": "content mismatch" if warm.ok else f"exception on conformant input: {warm.brief()}", "mech": mech,
                             "detail": mismatch_detail(w_off, w_ln, warm.value, model.expected(w_off, w_ln)) if warm.ok else {"tb": warm.tb}})
                return
        arm_fault(rng.choice([1, 1, 2, 2, 3, 4, 6]), mode)
        try:
            first = call(lambda: (stream.seek(off), stream.read(ln))[1])
        finally:
            arm_fault(None)
        fired = FAULT["fired"] > fired0
        cnt["fault_injection_reads"] = cnt.get("fault_injection_reads", 0) + 1
        cnt["faults_fired"] = cnt.get("faults_fired", 0) + int(fired)
        cnt[f"faults_{mode}"] = cnt.get(f"faults_{mode}", 0) + int(fired)
        # after a short / empty backend read only the retry is judged
        if (mode == "eio" or not fired) and first.ok and first.value != exp:
            d = mismatch_detail(off, ln, first.value, exp)
            d["fault_fired"] = fired
            viol.append({"what": "wrong bytes returned by a read during which a backend read failed" if fired else "content mismatch", "mech": mech, "detail": d})
            return
        if not first.ok and not fired:
            viol.append({"what": f"exception on conformant input: {first.brief()}", "mech": mech, "detail": {"offset": off, "length": ln, "tb": first.tb}})
            return
        if mode != "eio" and fired:
            # dissect.util's AlignedStream (not part of the repository) keeps the last aligned block it was handed, short
            # or not; drop those buffers so that the retry shows what the repository's own caches kept
            flush_util_buffers()
        # retry (and a neighbouring read that shares tables with it)
        for o2, l2 in ((off, ln), (max(0, off - 4096), min(ln + 8192, 300000))):
            e2 = model.expected(o2, l2)
            again = call(lambda: (stream.seek(o2), stream.read(l2))[1])
            cnt["retry_reads_after_fault"] = cnt.get("retry_reads_after_fault", 0) + int(fired)
            if not again.ok:
                viol.append({"what": f"read after an earlier failed read raised: {again.brief()}", "mech": mech,
                             "detail": {"offset": o2, "length": l2, "first_outcome": first.brief(), "tb": again.tb}})
                return
            if again.value != e2:
                d = mismatch_detail(o2, l2, again.value, e2)
                d["first_outcome"] = first.brief()
                viol.append({"what": "wrong bytes after an earlier read on the same object failed with an I/O error", "mech": mech, "detail": d})
                return


def crossing_count(reqs, unit: int) -> int:
    return sum(1 for o, n in reqs if n > 0 and o // unit != (o + n - 1) // unit)


def triangulate(rng, ref_model, model, what: str, n: int = 8) -> None:
    """Writer self-check: an independent naive reference reader over the written bytes must agree with the content
    model. A disagreement blames the harness (AssertionError -> inconclusive), never the repository."""
    size = model.size
    if ref_model.size != size:
        raise AssertionError(f"triangulation ({what}): reference reader size {ref_model.size} != model size {size}")
    for _ in range(n):
        if size <= 0:
            return
        off = rng.randrange(0, size)
        ln = rng.randrange(1, min(size - off, 200_000) + 1)
        a, b = ref_model.expected(off, ln), model.expected(off, ln)
        if a != b:
            raise AssertionError(f"triangulation ({what}): reference reader and content model disagree at offset {off} length {ln}")
