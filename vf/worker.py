"""Shard worker: runs a list of cases of one check under the monitors, prints one JSON line per case."""
from __future__ import annotations

import importlib
import json
import os
import shutil
import sys
import tempfile
import time
import traceback

from vf import monitors
from vf import core as _core
from vf.core import BudgetExceeded

REPO = os.environ.get("VF_REPO", "/repo")


class Ctx:
    def __init__(self, tier: str, seed: int, mod):
        self.tier = tier
        self.seed = seed
        self.audit = monitors.AuditMonitor.install()
        self.inflate = monitors.InflateMonitor()
        self.inflate.install()
        self.mem = monitors.MemoryMonitor()
        self.steps = None
        self._tmp: list[str] = []
        self.mod = mod

    def tmpdir(self) -> str:
        d = tempfile.mkdtemp(prefix="vf-case-")
        self._tmp.append(d)
        return d

    def cleanup(self) -> None:
        for d in self._tmp:
            shutil.rmtree(d, ignore_errors=True)
        self._tmp.clear()


def import_repo():
    if REPO not in sys.path:
        sys.path.insert(0, REPO)
    import dissect.hypervisor  # noqa: F401

    path = os.path.realpath(dissect.hypervisor.__file__)
    if not path.startswith(os.path.realpath(REPO) + os.sep):
        raise RuntimeError(f"dissect.hypervisor imported from {path}, expected under {REPO}")
    # import every module so that all code objects exist before instrumentation
    import pkgutil

    for m in pkgutil.walk_packages(dissect.hypervisor.__path__, "dissect.hypervisor."):
        importlib.import_module(m.name)
    return os.path.dirname(os.path.dirname(os.path.dirname(path)))


def run_cases(check: str, tier: str, seed: int, cases: list[dict], out) -> None:
    import_repo()
    mod = importlib.import_module(f"vf.checks.{check.lower()}")
    ctx = Ctx(tier, seed, mod)
    step_mode = getattr(mod, "STEPS", "count")
    if step_mode != "off":
        import dissect.cstruct
        import dissect.util

        prefixes = (
            os.path.realpath(REPO) + os.sep,
            os.path.dirname(os.path.realpath(dissect.cstruct.__file__)) + os.sep,
            os.path.dirname(os.path.realpath(dissect.util.__file__)) + os.sep,
        )
        ctx.steps = monitors.StepMonitor(prefixes, coverage=True)
        ctx.steps.start()
    use_mem = getattr(mod, "MEMORY", False)
    if getattr(mod, "CONTRACTS", False):
        from vf import contracts

        ctx.contracts = contracts.install()
    if hasattr(mod, "worker_init"):
        mod.worker_init(ctx)
    default_budget = getattr(mod, "STEP_BUDGET", 50_000_000)

    aborted = 0
    for case in cases:
        if aborted >= 2:
            # repeated non-termination / budget aborts: the verdict is already decided, don't burn the wall clock
            break
        out.write(json.dumps({"start": case["cid"]}) + "\n")
        out.flush()
        t0 = time.time()
        ctx.audit.reset()
        ctx.audit.enabled = True
        ctx.inflate.reset()
        _core.LIVE_PROXIES.clear()
        _core.ALL_PROXIES.clear()
        del _core.SEEN_STREAMS[:]
        if ctx.steps is not None:
            ctx.steps.begin_case(case.get("step_budget", default_budget))
        if use_mem:
            ctx.mem.begin()
        rec: dict = {"cid": case["cid"]}
        interposer = _core.OpenInterposer().install() if getattr(mod, "OPEN_INTERPOSE", False) else None
        try:
            try:
                res = mod.run(case, ctx)
            finally:
                if interposer is not None:
                    interposer.remove()
                    _core.arm_fault(None)
            if interposer is not None:
                res.setdefault("cnt", {})["library_opened_files_wrapped"] = interposer.wrapped
                res.setdefault("cnt", {})["library_opened_files_unbuffered"] = interposer.raw_opens
            if getattr(mod, "HANDLE_CLOSE_CHECK", False):
                # every stream object of the case has gone out of scope by now: dropping them (or anything done before) must
                # not have closed a handle that belongs to the caller
                import gc

                # ... and so must closing them ("with VHDX(fh) as disk", disk.close()): the handle stays the caller's
                closed_streams = 0
                for s in _core.SEEN_STREAMS:
                    try:
                        s.close()
                        closed_streams += 1
                    except Exception:
                        pass
                del _core.SEEN_STREAMS[:]
                res.setdefault("cnt", {})["streams_closed_before_handle_check"] = closed_streams
                gc.collect()
                closed = [p for p in _core.ALL_PROXIES if p.closed_by_callee]
                res.setdefault("cnt", {})["handles_checked_after_drop"] = len(_core.ALL_PROXIES)
                if closed:
                    res.setdefault("viol", []).append({"what": "a caller-supplied handle was closed by the library", "mech": "handle.closed",
                                                       "detail": {"closed_from": getattr(closed[0], "closed_from", "?"), "handles": len(closed)}})
            rec.update(res)
        except monitors.StepBudgetExceeded as e:
            ctx.steps.budget = None  # the abort has arrived: stop raising
            ctx.steps.cpu_budget = None
            ctx.steps.mem_budget = None
            rec["viol"] = [
                {
                    "what": "step-budget-exceeded",
                    "mech": "non-termination",
                    "detail": {"msg": str(e), "stack": (ctx.steps.tripped_stack or "")[-3000:]},
                }
            ]
            rec["aborted"] = "steps"
        except BudgetExceeded as e:
            rec["viol"] = [{"what": "io-budget-exceeded", "mech": "io-budget", "detail": {"msg": str(e)}}]
            rec["aborted"] = "io"
        except MemoryError:
            rec["viol"] = [{"what": "memory-error", "mech": "memory", "detail": {"tb": traceback.format_exc()[-2000:]}}]
            rec["aborted"] = "memory"
        except Exception:  # harness bug: never a verdict about the repository
            rec["harness_error"] = traceback.format_exc()[-4000:]
        finally:
            ctx.audit.enabled = False
            ctx.cleanup()
        if rec.get("aborted"):
            aborted += 1
        if ctx.steps is not None:
            rec["steps"] = ctx.steps.steps
            ctx.steps.budget = None
            ctx.steps.cpu_budget = None
        if use_mem:
            rec["peak"] = ctx.mem.peak()
        # audit side channel (always on)
        if ctx.audit.writes or ctx.audit.network:
            rec["audit_writes"] = ctx.audit.writes[:5]
            rec["audit_network"] = ctx.audit.network[:5]
        rec["audit_opens"] = len(ctx.audit.opens)
        if ctx.audit.opens:
            rec["open_sites"] = sorted({o["site"].rsplit(":", 2)[0] + ":" + o["site"].rsplit(":", 1)[1] for o in ctx.audit.opens})
        rec["wall"] = round(time.time() - t0, 4)
        out.write(json.dumps(rec, default=repr) + "\n")
        out.flush()

    tail = {"end": True}
    if ctx.steps is not None:
        tail["covered"] = ctx.steps.covered()
        tail["ncodes"] = ctx.steps.ncodes
    if hasattr(mod, "worker_fini"):
        tail["fini"] = mod.worker_fini(ctx)
    elif getattr(mod, "CONTRACTS", False):
        from vf import contracts

        tail["fini"] = {"contracts_available": contracts.STATE["available"], "contract_evals": contracts.STATE["evals"], "by_class": contracts.STATE["by_class"]}
    out.write(json.dumps(tail) + "\n")
    out.flush()


def main() -> int:
    check, tier, seed, case_file, out_file = sys.argv[1:6]
    with open(case_file) as fh:
        cases = json.load(fh)
    with open(out_file, "w") as out:
        run_cases(check, tier, int(seed), cases, out)
    return 0


if __name__ == "__main__":
    sys.exit(main())
