"""Deliberately naive, spec-literal reference readers over in-memory image bytes (one unit at a time, no caches,
no coalescing). They are used to triangulate the writers: writer -> bytes -> reference reader must reproduce the
content model. They share no code with the writers' layout logic beyond struct formats."""
from __future__ import annotations

import struct
import zlib

SECTOR = 512


class _Base:
    size = 0

    def expected(self, off: int, n: int) -> bytes:
        if off >= self.size or n <= 0:
            return b""
        n = min(n, self.size - off)
        u = self.unit
        u0, u1 = off // u, (off + n - 1) // u
        buf = b"".join(self.unit_bytes(i) for i in range(u0, u1 + 1))
        return buf[off - u0 * u : off - u0 * u + n]


class RefQCow2(_Base):
    """No backing file, no external data file (unallocated reads as zeros)."""

    def __init__(self, raw: bytes):
        self.raw = raw
        magic, ver, bfo, bfs, cb, size, crypt, l1_size, l1_off = struct.unpack_from(">IIQIIQIIQ", raw, 0)
        assert magic == 0x514649FB
        self.cb = cb
        self.unit = 1 << cb
        self.size = size
        self.l1_size, self.l1_off = l1_size, l1_off
        incompat = struct.unpack_from(">Q", raw, 72)[0] if ver >= 3 else 0
        self.ext = bool(incompat & 16)
        self.l2e = 16 if self.ext else 8
        self.l2n = self.unit // self.l2e

    def unit_bytes(self, c: int) -> bytes:
        cs = self.unit
        i1, i2 = divmod(c, self.l2n)
        if i1 >= self.l1_size:
            return b"\0" * cs
        l2 = struct.unpack_from(">Q", self.raw, self.l1_off + 8 * i1)[0] & 0x00FFFFFFFFFFFE00
        if not l2:
            return b"\0" * cs
        e = struct.unpack_from(">Q", self.raw, l2 + self.l2e * i2)[0]
        bm = struct.unpack_from(">Q", self.raw, l2 + self.l2e * i2 + 8)[0] if self.ext else None
        if e & (1 << 62):
            x = 62 - (self.cb - 8)
            off = e & ((1 << x) - 1)
            nsec = ((e >> x) & ((1 << (self.cb - 8)) - 1)) + 1
            blob = self.raw[off : off + nsec * 512 - (off & 511)]
            return zlib.decompressobj(-12).decompress(blob, cs).ljust(cs, b"\0")
        host = e & 0x00FFFFFFFFFFFE00
        if not self.ext:
            if e & 1 or not host:
                return b"\0" * cs
            return self.raw[host : host + cs].ljust(cs, b"\0")
        sc = cs // 32
        out = bytearray()
        for s in range(32):
            if bm >> (32 + s) & 1 or not (bm >> s & 1) or not host:
                out += b"\0" * sc
            else:
                out += self.raw[host + s * sc : host + (s + 1) * sc].ljust(sc, b"\0")
        return bytes(out)


class RefVMDKSparse(_Base):
    """Hosted sparse (KDMV, uncompressed, directory in the header) and ESX COWD extents; no parent."""

    def __init__(self, raw: bytes):
        self.raw = raw
        if raw[:4] == b"KDMV":
            _v, _f, cap, grain, _do, _ds, ngte, _rgd, gd, _ov = struct.unpack_from("<IIQQQQIQQQ", raw, 4)
            if gd == 0xFFFFFFFFFFFFFFFF:
                # "at the end": the footer (a second header 1024 bytes before the end of the file) has the real offset
                gd = struct.unpack_from("<IIQQQQIQQQ", raw, len(raw) - 1024 + 4)[8]
        else:
            assert raw[:4] == b"COWD"
            _v, _f, cap, grain, gd, _ngd, _nf = struct.unpack_from("<IIIIIII", raw, 4)
            ngte = 4096
        self.cap, self.grain, self.ngte, self.gd = cap, grain, ngte, gd
        self.unit = grain * SECTOR
        self.size = cap * SECTOR

    def unit_bytes(self, g: int) -> bytes:
        t, e = divmod(g, self.ngte)
        gt = struct.unpack_from("<I", self.raw, self.gd * SECTOR + 4 * t)[0]
        if not gt:
            return b"\0" * self.unit
        gte = struct.unpack_from("<I", self.raw, gt * SECTOR + 4 * e)[0]
        if gte in (0, 1):
            return b"\0" * self.unit
        return self.raw[gte * SECTOR : gte * SECTOR + self.unit].ljust(self.unit, b"\0")


class RefVDI(_Base):
    def __init__(self, raw: bytes):
        self.raw = raw
        self.bo, self.do = struct.unpack_from("<II", raw, 64 + 20 + 256)
        self.size = struct.unpack_from("<Q", raw, 64 + 20 + 256 + 28)[0]
        self.unit = struct.unpack_from("<I", raw, 64 + 20 + 256 + 36)[0]

    def unit_bytes(self, b: int) -> bytes:
        e = struct.unpack_from("<i", self.raw, self.bo + 4 * b)[0]
        if e < 0:
            return b"\0" * self.unit
        o = self.do + e * self.unit
        return self.raw[o : o + self.unit].ljust(self.unit, b"\0")
